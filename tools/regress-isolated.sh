#!/bin/bash
# Sensitivity regression on scratch copies of /repo (a clone) and /verif (tmpfs), so that /repo and
# /verif can be worked on meanwhile. Removes the copies afterwards.
# usage: tools/regress-isolated.sh [seed-id ...]   (output also in /dev/shm/regress.log)
set -u
ISO=/dev/shm/regress.iso
rm -rf "$ISO"; mkdir -p "$ISO"
git clone -q /repo "$ISO/repo"
rsync -a --exclude replays --exclude 'sim/target' /verif/ "$ISO/verif/"
sed -i "s#path = \"/repo\"#path = \"$ISO/repo\"#" "$ISO/verif/sim/Cargo.toml"
SEEDREGRESS_REPO="$ISO/repo" SEEDREGRESS_VERIF="$ISO/verif" python3 "$ISO/verif/tools/seedregress.py" "$@" 2>&1 | tee /dev/shm/regress.log
rc=${PIPESTATUS[0]}
rm -rf "$ISO"
exit $rc
