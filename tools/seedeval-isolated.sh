#!/bin/bash
# tools/seedeval.py on scratch copies of /repo (a clone) and /verif (tmpfs), so that a background
# sweep can keep using /repo. What is kept still goes to /verif/seeded/<seed-id>/.
# usage: tools/seedeval-isolated.sh <worktree> <k> <seed-id> <property> [--nobody]
set -u
ISO=/dev/shm/seedeval.$(basename "$1")
rm -rf "$ISO"; mkdir -p "$ISO"
git clone -q /repo "$ISO/repo"
rsync -a --exclude replays --exclude 'sim/target' --exclude seeded /verif/ "$ISO/verif/"
sed -i "s#path = \"/repo\"#path = \"$ISO/repo\"#" "$ISO/verif/sim/Cargo.toml"
SEEDEVAL_REPO="$ISO/repo" SEEDEVAL_VERIF="$ISO/verif" python3 /verif/tools/seedeval.py "$@"
rc=$?
rm -rf "$ISO"
exit $rc
