#!/bin/bash
# Background sweep: every claimed property, many seeds, quick or thorough tier.
# usage: tools/sweep.sh <first-seed> <last-seed> [tier]
cd "$(dirname "$0")/.."
tier=${3:-quick}
for seed in $(seq "$1" "$2"); do
  for p in C02 C03 C13 C14 C15 C16 C20; do
    VERIF_SEED=$seed ./check $p $tier 2>&1 | grep -v '^KNOWN-FINDING' | cut -c1-1500 | sed "s/^/[seed $seed] /"
  done
done
