#!/usr/bin/env python3
"""Evaluate one seeded property-breaking change.

  tools/seedeval.py <worktree> <k> <seed-id> <property> [--nobody]

<worktree>/_seed/<k>/{patch.diff,demo.rs,notes.md} come from an independent sub-agent. Steps:
 1. in the scratch worktree: patch applies, the crate's own test suite passes with it, the
    demonstration fails with it and passes without it;
 2. apply the patch to /repo, run every claimed check (quick), undo the patch straight afterwards;
 3. write /verif/seeded/<seed-id>/{patch.diff,demo.rs,notes.md,meta.json}.
"""
import json, os, re, shutil, subprocess, sys, time

# the checks run against REPO from VERIF (scratch copies when /repo is busy: tools/seedeval-isolated.sh);
# what is kept always goes to /verif/seeded
REPO = os.environ.get("SEEDEVAL_REPO", "/repo")
VERIF = os.environ.get("SEEDEVAL_VERIF", "/verif")

def sh(cmd, cwd=None, env=None, timeout=3600):
    e = dict(os.environ); e["CARGO_NET_OFFLINE"] = "true"
    if env: e.update(env)
    p = subprocess.run(cmd, shell=True, cwd=cwd, env=e, stdout=subprocess.PIPE, stderr=subprocess.STDOUT, text=True, timeout=timeout)
    return p.returncode, p.stdout

def verdict(out):
    """0 = demonstration passed, 1 = failed, 99 = did not run."""
    if "test result: FAILED" in out or "panicked" in out:
        return 1
    if "test result: ok" in out:
        return 0
    return 99

def demo_run(wt, nobody):
    rc, out = _demo_run(wt, nobody)
    return verdict(out), out

def _demo_run(wt, nobody):
    if not nobody:
        return sh("cargo test --offline --test seed_demo 2>&1 | tail -40", cwd=wt)
    rc, out = sh("cargo test --offline --test seed_demo --no-run 2>&1 | tail -5", cwd=wt)
    m = re.search(r"\((target/debug/deps/seed_demo-[0-9a-f]+)\)", out)
    if not m:
        return 99, out
    exe = os.path.join(wt, m.group(1))
    dst = "/dev/shm/seed_demo_bin"
    shutil.copy(exe, dst); os.chmod(dst, 0o755)
    rc, out = sh("cd /dev/shm && TMPDIR=/dev/shm setpriv --reuid=65534 --regid=65534 --clear-groups %s 2>&1 | tail -40" % dst)
    os.remove(dst)
    return rc, out

def main():
    wt, k, sid, prop = sys.argv[1:5]
    nobody = "--nobody" in sys.argv
    src = os.path.join(wt, "_seed", k)
    patch = os.path.join(src, "patch.diff")
    meta = {"seed_id": sid, "breaks_property": prop, "source": "independent sub-agent working only from the property text in a scratch worktree", "ran": []}
    def log(step, rc, out):
        meta["ran"].append({"step": step, "exit": rc, "tail": out[-600:]})
        print("== %s -> %s" % (step, rc)); sys.stdout.flush()
    sh("git checkout -- . && git clean -fdq tests", cwd=wt)
    rc, out = sh("git apply --check %s" % patch, cwd=wt); log("patch applies to HEAD", rc, out)
    if rc: return finish(meta, sid, src, ok=False)
    # demo without the patch
    os.makedirs(os.path.join(wt, "tests"), exist_ok=True)
    shutil.copy(os.path.join(src, "demo.rs"), os.path.join(wt, "tests", "seed_demo.rs"))
    rc, out = demo_run(wt, nobody); log("demonstration WITHOUT the change (must pass)", rc, out)
    passes_without = rc == 0
    sh("git apply %s" % patch, cwd=wt)
    rc, out = demo_run(wt, nobody); log("demonstration WITH the change (must fail)", rc, out)
    fails_with = rc == 1
    os.remove(os.path.join(wt, "tests", "seed_demo.rs"))
    rc, out = sh("cargo test --workspace --offline 2>&1 | grep -E '^test result|FAILED|panicked|error' | head -20", cwd=wt)
    suite_ok = "468 passed; 0 failed" in out and "FAILED" not in out
    log("existing test suite WITH the change (must pass, 468)", 0 if suite_ok else 1, out)
    sh("git checkout -- . ", cwd=wt)
    meta["confirmed"] = bool(passes_without and fails_with and suite_ok)
    if not meta["confirmed"]:
        return finish(meta, sid, src, ok=False)
    # now against the checks
    rc, out = sh("git -C %s status --short" % REPO); assert out.strip() == "", "/repo not clean: " + out
    rc, out = sh("git -C %s apply %s" % (REPO, patch)); log("git -C /repo apply", rc, out)
    detected = {}
    try:
        for p in ["C02", "C03", "C13", "C14", "C15", "C16", "C20"]:
            t0 = time.time()
            rc, full = sh("./check %s quick 2>&1 | grep -v '^KNOWN-FINDING' | cut -c1-700" % p, cwd=VERIF)
            # (a run that never printed its summary line did not judge anything: build failure of the
            # simulator against a changed public API, harness error)
            rc2 = 1 if "VIOLATION property=" in full else (2 if "violations:" not in full else 0)
            out = "\n".join(full.splitlines()[:8] if rc2 != 2 else full.splitlines()[-12:])
            clauses = sorted(set(re.findall(r"^\s+(C\d\d\.[a-z-]+):", out, re.M)))
            detected[p] = {"verdict": {0: "silent", 1: "VIOLATION", 2: "error"}[rc2], "clauses": clauses, "wall_s": round(time.time() - t0, 1), "first_lines": out[:900]}
            print("   %s: %s %s" % (p, detected[p]["verdict"], clauses)); sys.stdout.flush()
    finally:
        sh("git -C %s checkout -- ." % REPO)
        shutil.rmtree(os.path.join(VERIF, "replays"), ignore_errors=True)
    rc, out = sh("git -C %s status --short" % REPO); log("undo (git -C /repo checkout -- .), status", rc, out)
    meta["checks"] = detected
    meta["caught_by"] = [p for p, d in detected.items() if d["verdict"] == "VIOLATION"]
    meta["caught_by_own_property"] = prop in meta["caught_by"]
    return finish(meta, sid, src, ok=True)

def finish(meta, sid, src, ok):
    dst = os.path.join("/verif/seeded", sid)
    if meta.get("confirmed"):
        os.makedirs(dst, exist_ok=True)
        for f in ("patch.diff", "demo.rs", "notes.md"):
            if os.path.exists(os.path.join(src, f)):
                shutil.copy(os.path.join(src, f), os.path.join(dst, f))
        json.dump(meta, open(os.path.join(dst, "meta.json"), "w"), indent=1)
    print(json.dumps({k: meta.get(k) for k in ("seed_id", "confirmed", "caught_by", "caught_by_own_property")}))
    if not meta.get("confirmed"):
        print(json.dumps(meta["ran"], indent=1)[-3000:])
    return 0

if __name__ == "__main__":
    sys.exit(main())
