#!/bin/bash
# quick sweep over seeds $1..$2, then a thorough pass with seeds $3...
cd "$(dirname "$0")/.."
a=$1; b=$2; shift 2
tools/sweep.sh "$a" "$b" quick
for s in "$@"; do tools/sweep.sh "$s" "$s" thorough; done
