#!/usr/bin/env python3
"""Sensitivity regression: re-apply every kept seeded change to /repo (one at a time), run the quick
check of the property it breaks, expect a VIOLATION, undo the change straight afterwards.

  tools/seedregress.py [seed-id ...]        (default: all of /verif/seeded/*)

Never run while a background sweep uses /repo — or run it on scratch copies (tools/regress-isolated.sh),
which leaves /repo and /verif alone. Prints one line per change; exit 1 if one is missed.
"""
import json, os, re, subprocess, sys, shutil

def sh(cmd, cwd=None):
    e = dict(os.environ); e["CARGO_NET_OFFLINE"] = "true"
    p = subprocess.run(cmd, shell=True, cwd=cwd, env=e, stdout=subprocess.PIPE, stderr=subprocess.STDOUT, text=True, errors="replace")
    return p.returncode, p.stdout

REPO = os.environ.get("SEEDREGRESS_REPO", "/repo")
VERIF = os.environ.get("SEEDREGRESS_VERIF", "/verif")

def main():
    root = "/verif/seeded"
    ids = sys.argv[1:] or sorted(os.listdir(root))
    rc, out = sh("git -C %s status --short" % REPO)
    if out.strip():
        print("/repo is not clean:\n" + out); return 2
    missed = []
    for sid in ids:
        meta = json.load(open(os.path.join(root, sid, "meta.json")))
        prop = meta["breaks_property"]
        patch = os.path.join(root, sid, "patch.diff")
        rc, out = sh("git -C %s apply %s" % (REPO, patch))
        if rc:
            print("%-50s patch no longer applies: %s" % (sid, out.strip()[:200])); missed.append(sid); continue
        try:
            rc, out = sh("./check %s quick 2>&1 | grep -v '^KNOWN-FINDING' | cut -c1-300" % prop, cwd=VERIF)
        finally:
            sh("git -C %s checkout -- ." % REPO)
            shutil.rmtree(os.path.join(VERIF, "replays"), ignore_errors=True)
        clauses = sorted(set(re.findall(r"^\s+(C\d\d\.[a-z-]+):", out, re.M)))
        hit = "VIOLATION property=%s" % prop in out
        m = re.search(r"violations: (\d+)", out)
        n = int(m.group(1)) if m else -1
        print("%-50s %s %s n=%d %s%s" % (sid, prop, "caught" if hit else "MISSED", n, clauses, "  (WEAK: fewer than 5 violating runs in the batch)" if hit and 0 <= n < 5 else "")); sys.stdout.flush()
        if not hit:
            missed.append(sid)
    # leave evidence of the unchanged tree behind, not of a mutant
    print("re-run the quick checks on the unchanged tree before committing evidence")
    return 1 if missed else 0

if __name__ == "__main__":
    sys.exit(main())
