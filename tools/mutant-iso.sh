#!/bin/bash
# Runs one quick check against a scratch clone of /repo with a patch applied (sensitivity probe of
# the machinery; /repo itself is not touched). usage: tools/mutant-iso.sh <patch.diff> <Cnn> [seed]
set -u
PATCH=$(realpath "$1")
ISO=/dev/shm/mutant.$$
rm -rf "$ISO"; mkdir -p "$ISO"
git clone -q /repo "$ISO/repo"
git -C "$ISO/repo" apply "$PATCH" || { echo "patch does not apply"; rm -rf "$ISO"; exit 2; }
rsync -a --exclude replays --exclude 'sim/target' --exclude seeded /verif/ "$ISO/verif/"
sed -i "s#path = \"/repo\"#path = \"$ISO/repo\"#" "$ISO/verif/sim/Cargo.toml"
(cd "$ISO/verif" && VERIF_SEED=${3:-20260926} ./check "$2" quick 2>&1 | grep -v '^KNOWN-FINDING' | cut -c1-${CUT:-600})
# optionally prove that the first replay file reproduces in a fresh process (4th argument: replay)
if [ "${4:-}" = replay ]; then
  f=$(ls "$ISO"/verif/replays/*.json 2>/dev/null | head -1)
  [ -n "$f" ] && (cd "$ISO/verif" && ./check "$2" --replay "$f" > "$ISO/replay.out" 2>&1; rc=$?; cut -c1-300 "$ISO/replay.out"; echo "replay exit: $rc"; python3 -c "import json,sys; d=json.load(open('$f')); print('minimised:', d.get('minimised'), 'tree nodes:', len(d['scenario']['tree']), 'mutations:', d['scenario'].get('mutations'), 'schedule:', d['scenario'].get('schedule'))")
fi
rm -rf "$ISO"
