mod env;
mod exec;
mod fdlimit;
mod findings;
mod gen;
mod model;
mod oracle;
mod props;
mod rng;
mod scenario;
mod shrink;
mod world;

use std::collections::{BTreeMap, BTreeSet};
use std::path::PathBuf;
use std::time::Instant;

use serde::{Deserialize, Serialize};

use crate::env::Env;
use crate::gen::Tier;
use crate::oracle::Violation;
use crate::props::common::GenStats;
use crate::scenario::Scenario;

#[derive(Serialize, Deserialize, Clone, Debug)]
pub struct Replay {
    pub property: String,
    pub clause: String,
    pub seed: u64,
    pub index: u64,
    pub violation: Violation,
    pub scenario: Scenario,
    pub fingerprint: String,
    pub log: Vec<exec::Ev>,
    #[serde(default)]
    pub minimised: bool,
}

#[derive(Serialize, Deserialize, Default, Debug)]
pub struct WorkerReport {
    pub prop: String,
    pub runs: u64,
    pub executions: u64,
    pub events: u64,
    pub next_calls: u64,
    pub nontrivial: u64,
    pub violations: Vec<Replay>,
    pub probes: BTreeMap<String, u64>,
    pub fired: BTreeMap<String, u64>,
    pub rejections: u64,
    pub restricted: u64,
    pub harness_errors: Vec<String>,
    /// finding id -> (hits, one example description)
    pub known: BTreeMap<String, (u64, String)>,
    pub samples: Vec<serde_json::Value>,
    pub wall_s: f64,
    pub timed_out: bool,
    /// (index, fingerprint of the main log + verdict) of every run, for the determinism proof
    #[serde(default)]
    pub all_fingerprints: Vec<(u64, String)>,
}

fn arg(args: &[String], name: &str) -> Option<String> {
    args.iter().position(|a| a == name).and_then(|i| args.get(i + 1)).cloned()
}

fn scratch_root(scratch: &str, seed: u64) -> PathBuf {
    PathBuf::from(scratch).join(format!("r{:016x}", seed))
}

fn worker(args: &[String]) -> i32 {
    let prop = arg(args, "--prop").expect("--prop");
    let seed: u64 = arg(args, "--seed").expect("--seed").parse().expect("seed");
    let from: u64 = arg(args, "--from").map_or(0, |s| s.parse().unwrap());
    let to: u64 = arg(args, "--to").expect("--to").parse().unwrap();
    let stride: u64 = arg(args, "--stride").map_or(1, |s| s.parse().unwrap());
    let tier = match arg(args, "--tier").as_deref() {
        Some("thorough") => Tier::Thorough,
        _ => Tier::Quick,
    };
    let scratch = arg(args, "--scratch").expect("--scratch");
    let out_path = arg(args, "--out").expect("--out");
    let fp_path = arg(args, "--fingerprints");
    let limit: f64 = arg(args, "--time-limit").map_or(1e9, |s| s.parse().unwrap());
    let max_viol: usize = arg(args, "--max-violations").map_or(20, |s| s.parse().unwrap());
    let dump_fps = arg(args, "--dump-fingerprints").is_some();
    let registry = match findings::load(arg(args, "--known").as_deref()) {
        Ok(r) => r,
        Err(e) => {
            eprintln!("known findings: {}", e);
            return 2;
        },
    };
    let t0 = Instant::now();
    let mut rep = WorkerReport {
        prop: prop.clone(),
        ..Default::default()
    };
    let mut fps: BTreeSet<u64> = BTreeSet::new();
    let mut stats = GenStats::default();
    let mut largest: (usize, Option<serde_json::Value>) = (0, None);
    let mut i = from;
    // silence panic messages from the code under test (they are caught and logged as events)
    install_hook();
    while i < to {
        if t0.elapsed().as_secs_f64() > limit {
            rep.timed_out = true;
            break;
        }
        let s = rng::mix(seed, i);
        let sc = props::generate(&prop, s, tier, &mut stats);
        let mut env = Env::new(scratch_root(&scratch, s));
        match props::check(&sc, &mut env) {
            Ok(out) => {
                rep.runs += 1;
                if dump_fps {
                    let verdict: Vec<&str> = out.violations.iter().map(|v| v.clause.as_str()).collect();
                    rep.all_fingerprints.push((
                        i,
                        format!("{:016x}/{}/{}/{}", out.fingerprint, env.executions, env.events, verdict.join(",")),
                    ));
                }
                if out.nontrivial {
                    rep.nontrivial += 1;
                    fps.insert(out.fingerprint);
                }
                for p in &out.probes {
                    *rep.probes.entry(p.clone()).or_insert(0) += 1;
                }
                for (k, n) in &out.fired {
                    *rep.fired.entry(k.clone()).or_insert(0) += *n as u64;
                }
                if rep.samples.len() < 2 && out.nontrivial {
                    rep.samples.push(serde_json::json!({"index": i, "scenario": sc, "log": out.log}));
                }
                if out.nontrivial && out.log.len() > largest.0 && out.log.len() < 400 {
                    largest = (out.log.len(), Some(serde_json::json!({"index": i, "scenario": sc, "log": out.log})));
                }
                let mut fresh: Vec<&Violation> = Vec::new();
                for v in &out.violations {
                    match findings::explain(&registry, &sc, v, &env.root_text) {
                        Some(f) => {
                            let e = rep.known.entry(f.id.clone()).or_insert((0, String::new()));
                            e.0 += 1;
                            if e.1.is_empty() {
                                e.1 = format!("index {}: {}", i, v.detail);
                            }
                        },
                        None => fresh.push(v),
                    }
                }
                if let Some(v) = fresh.first() {
                    if rep.violations.len() < max_viol {
                        rep.violations.push(Replay {
                            property: prop.clone(),
                            clause: v.clause.clone(),
                            seed,
                            index: i,
                            violation: (*v).clone(),
                            scenario: sc.clone(),
                            fingerprint: format!("{:016x}", out.fingerprint),
                            log: out.log.clone(),
                            minimised: false,
                        });
                    }
                }
            },
            Err(e) => {
                if rep.harness_errors.len() < 10 {
                    rep.harness_errors.push(format!("index {}: {}", i, e.0));
                }
            },
        }
        rep.executions += env.executions as u64;
        rep.events += env.events as u64;
        rep.next_calls += env.next_calls as u64;
        env.finish();
        i += stride;
    }
    if let Some(l) = largest.1 {
        rep.samples.push(l);
    }
    rep.rejections = stats.rejections as u64;
    rep.restricted = stats.restricted as u64;
    rep.wall_s = t0.elapsed().as_secs_f64();
    if let Some(fp_path) = fp_path {
        let bytes: Vec<u8> = fps.iter().flat_map(|f| f.to_le_bytes()).collect();
        std::fs::write(fp_path, bytes).expect("write fingerprints");
    }
    std::fs::write(&out_path, serde_json::to_string(&rep).unwrap()).expect("write report");
    0
}

/// Re-executes the explicit scenario of a replay file in a fresh process. The PRNG is not
/// consulted. Exit 1 + VIOLATION line if the same clause fails again, 0 if it is gone.
/// Debugging aid: executes a bare scenario file (not a replay file), prints its event log and
/// whatever the property's check says about it.
fn run_scenario(args: &[String]) -> i32 {
    let file = args.get(2).expect("run <scenario file>");
    let scratch = arg(args, "--scratch").expect("--scratch");
    let sc: Scenario = match std::fs::read_to_string(file).map_err(|e| e.to_string()).and_then(|t| serde_json::from_str(&t).map_err(|e| e.to_string())) {
        Ok(sc) => sc,
        Err(e) => {
            eprintln!("cannot read {}: {}", file, e);
            return 2;
        },
    };
    install_hook();
    let mut env = Env::new(scratch_root(&format!("{}/w0", scratch), sc.seed));
    match env.run(&sc) {
        Ok(log) => {
            for ev in &log {
                println!("{}", serde_json::to_string(ev).unwrap_or_default());
            }
        },
        Err(e) => eprintln!("harness error: {}", e.0),
    }
    let res = props::check(&sc, &mut env);
    env.finish();
    match res {
        Err(e) => {
            eprintln!("harness error: {}", e.0);
            2
        },
        Ok(out) => {
            for v in &out.violations {
                println!("violation {}: {}", v.clause, v.detail);
            }
            println!("{} violation(s)", out.violations.len());
            0
        },
    }
}

fn replay(args: &[String]) -> i32 {
    let file = args.get(2).expect("replay <file>");
    let scratch = arg(args, "--scratch").expect("--scratch");
    let text = match std::fs::read_to_string(file) {
        Ok(t) => t,
        Err(e) => {
            eprintln!("cannot read {}: {}", file, e);
            return 2;
        },
    };
    let rp: Replay = match serde_json::from_str(&text) {
        Ok(r) => r,
        Err(e) => {
            eprintln!("cannot parse {}: {}", file, e);
            return 2;
        },
    };
    install_hook();
    // same nesting depth as a worker's scratch (`<scratch>/w<k>/r<seed>`), so that values that count
    // the components of absolute paths (depth of rooted-glob entries) replay identically
    let mut env = Env::new(scratch_root(&format!("{}/w0", scratch), rp.scenario.seed));
    let res = props::check(&rp.scenario, &mut env);
    env.finish();
    match res {
        Err(e) => {
            eprintln!("harness error: {}", e.0);
            2
        },
        Ok(out) => {
            let fp = format!("{:016x}", out.fingerprint);
            match out.violations.iter().find(|v| v.clause == rp.clause) {
                Some(v) => {
                    println!("replayed clause {}: {}", v.clause, v.detail);
                    println!(
                        "log fingerprint {} ({})",
                        fp,
                        if fp == rp.fingerprint { "identical to the recorded run" } else { "DIFFERS from the recorded run" }
                    );
                    println!("VIOLATION property={} replay={}", rp.property, file);
                    1
                },
                None => {
                    println!("clause {} no longer fails on this tree (log fingerprint {})", rp.clause, fp);
                    0
                },
            }
        },
    }
}

/// Minimises the scenario of a replay file (same clause must keep failing) and rewrites it.
fn shrink_cmd(args: &[String]) -> i32 {
    let file = args.get(2).expect("shrink <file>");
    let scratch = arg(args, "--scratch").expect("--scratch");
    let out_path = arg(args, "--out").expect("--out");
    let registry = match findings::load(arg(args, "--known").as_deref()) {
        Ok(r) => r,
        Err(e) => {
            eprintln!("known findings: {}", e);
            return 2;
        },
    };
    let rp: Replay = match std::fs::read_to_string(file).map_err(|e| e.to_string()).and_then(|t| serde_json::from_str(&t).map_err(|e| e.to_string())) {
        Ok(r) => r,
        Err(e) => {
            eprintln!("cannot load {}: {}", file, e);
            return 2;
        },
    };
    install_hook();
    let mut sh = shrink::Shrinker {
        clause: rp.clause.clone(),
        registry: &registry,
        scratch: PathBuf::from(&scratch),
        executions: 0,
        budget: 400,
    };
    if sh.fails(&rp.scenario).is_none() {
        eprintln!("the recorded scenario does not fail in the shrinker; leaving it as it is");
        return 3;
    }
    let min = sh.minimise(&rp.scenario);
    sh.budget += 2;
    let Some(f) = sh.fails(&min)
    else {
        eprintln!("minimised scenario stopped failing; leaving the original");
        return 3;
    };
    let new = Replay {
        violation: f.violation,
        scenario: min,
        fingerprint: format!("{:016x}", f.fingerprint),
        log: f.log,
        minimised: true,
        ..rp
    };
    std::fs::write(&out_path, serde_json::to_string_pretty(&new).unwrap()).expect("write");
    println!("minimised in {} executions", sh.executions);
    0
}

fn install_hook() {
    let default_hook = std::panic::take_hook();
    std::panic::set_hook(Box::new(move |info| {
        if !exec::IN_SUT.load(std::sync::atomic::Ordering::SeqCst) {
            default_hook(info);
        }
    }));
}

/// Environment self-test: exit 2 (never a violation) if the sandbox cannot produce the faults or
/// the seams do not work.
fn selftest(args: &[String]) -> i32 {
    use scenario::*;
    let scratch = arg(args, "--scratch").expect("--scratch");
    let mut problems: Vec<String> = Vec::new();
    // text-level helpers of the oracle
    for (text, want) in [
        ("{b/**,c}", vec!["b/**", "c"]),
        ("{a,{b,c/**}}", vec!["a", "b", "c/**"]),
        ("{a,b}c", vec!["{a,b}c"]),
        ("{a}", vec!["{a}"]),
        ("{[,]x,y}", vec!["[,]x", "y"]),
        ("{a\\,b,c}", vec!["a\\,b", "c"]),
        ("{a,b}/{c,d}", vec!["{a,b}/{c,d}"]),
        ("{<a,b:1,2>,c}", vec!["{<a,b:1,2>,c}"]),
        ("a", vec!["a"]),
    ] {
        let got = oracle::flatten_alternatives(text);
        if got != want {
            problems.push(format!("flatten_alternatives({:?}) = {:?}, expected {:?}", text, got, want));
        }
    }
    let tree = vec![
        Node { path: "a".into(), kind: Kind::Dir, mode: None },
        Node { path: "a/x".into(), kind: Kind::File, mode: None },
        Node { path: "b".into(), kind: Kind::File, mode: None },
        Node { path: "c".into(), kind: Kind::Dir, mode: None },
        Node { path: "c/y".into(), kind: Kind::File, mode: None },
        Node { path: "l".into(), kind: Kind::Link { target: "a".into() }, mode: None },
        Node { path: "u".into(), kind: Kind::Dir, mode: Some(0) },
    ];
    let mk = |order: Order| Scenario {
        prop: "selftest".into(),
        seed: 0,
        tree: tree.clone(),
        cwd: "".into(),
        walkers: vec![Walker {
            source: Source::Path,
            base: "".into(),
            spelling: Spelling::Absolute,
            link: Link::ReadFile,
            depth: Depth::Unbounded,
            order,
            victims: vec![],
            layers: vec![],
            taps: false,
            erased: false,
            form: 0,
        }],
        mutations: vec![],
        schedule: vec![],
        triggers: vec![],
        lazy: false,
    };
    let mut env = Env::new(scratch_root(&scratch, 0));
    let mut seqs: Vec<Vec<String>> = Vec::new();
    for order in [Order::Lex, Order::Rev, Order::Native, Order::Native] {
        match env.run(&mk(order)) {
            Ok(log) => {
                let ys: Vec<String> = log
                    .iter()
                    .filter_map(|e| match e {
                        exec::Ev::Yield { path, .. } => Some(path.clone()),
                        _ => None,
                    })
                    .collect();
                let errs = log.iter().filter(|e| matches!(e, exec::Ev::Error { kind, .. } if kind == "PermissionDenied")).count();
                if errs != 1 {
                    problems.push(format!("mode 000 directory did not fail to open ({} permission errors): privileges not dropped?", errs));
                }
                if !log.iter().any(|e| matches!(e, exec::Ev::Yield { path, ft: 'l', .. } if path.ends_with("/l"))) {
                    problems.push("symbolic link not reported as a link".into());
                }
                seqs.push(ys);
            },
            Err(e) => problems.push(format!("cannot run: {}", e.0)),
        }
    }
    env.finish();
    if seqs.len() == 4 {
        let mut rev = seqs[1].clone();
        rev.sort();
        let mut lex = seqs[0].clone();
        lex.sort();
        if seqs[0] == seqs[1] || lex != rev {
            problems.push("entry-order seam (H1) does not reorder".into());
        }
        if seqs[2] != seqs[3] {
            problems.push("native listing order is not repeatable".into());
        }
        // tmpfs lists newest first: `c` (created after `a`) before `a`
        let pos = |n: &str| seqs[2].iter().position(|p| p.ends_with(n));
        if !(pos("/c") < pos("/a")) {
            println!("note: native order is not newest-first (not tmpfs?)");
        }
    }
    if problems.is_empty() {
        println!("selftest ok");
        0
    }
    else {
        for p in problems {
            eprintln!("selftest: {}", p);
        }
        2
    }
}

fn main() {
    let args: Vec<String> = std::env::args().collect();
    let code = match args.get(1).map(|s| s.as_str()) {
        Some("worker") => worker(&args),
        Some("replay") => replay(&args),
        Some("run") => run_scenario(&args),
        Some("partition") => {
            let g = wax::Glob::new(&args[2]).unwrap();
            let (p, r) = g.partition();
            println!("{:?} {:?}", p, r.map(|g| g.to_string()));
            0
        },
        Some("selftest") => selftest(&args),
        Some("shrink") => shrink_cmd(&args),
        Some("gen") => {
            let prop = arg(&args, "--prop").expect("--prop");
            let seed: u64 = arg(&args, "--seed").expect("--seed").parse().unwrap();
            let index: u64 = arg(&args, "--index").map_or(0, |s| s.parse().unwrap());
            let mut st = GenStats::default();
            let sc = props::generate(&prop, rng::mix(seed, index), Tier::Quick, &mut st);
            println!("{}", serde_json::to_string_pretty(&sc).unwrap());
            0
        },
        _ => {
            eprintln!("usage: waxsim worker|gen|replay ...");
            2
        },
    };
    std::process::exit(code);
}
