//! Seeded scenario generation, swarm style: every run re-draws sizes, name pool, enabled pattern
//! constructs, fault kinds, order mode, stack depth, number of walkers, taps.
//! The PRNG is consulted here and nowhere else.

use crate::model::{Fault, Model};
use crate::rng::Rng;
use crate::scenario::*;

pub const NAME_POOL: &[&str] = &[
    "a", "b", "c", "aa", "ab", "Ab", "A", ".h", "a.b", "a b", "é", "日", "a*b", "[a]", "{a}",
    "a,b", "a\nb", "b.txt", "x.txt", "B", "a\\b", "1", "É", "-a", "a ", "~", "a:b", "e\u{301}",
    // names that are not valid UTF-8 (raw bytes 0xFF / 0xFE, see scenario::BYTE_BASE)
    "n\u{F8FF}", "\u{F8FE}x.txt", "a\u{F8FF}b",
    // letters whose case folding is not what `to_lowercase`/`to_uppercase` say: a digraph with a
    // titlecase form, the micro sign, final sigma
    "ǆ", "µs", "ς",
    "aaaaaaaaaaaaaaaaaaaaaaaaaaaaaaaaaaaaaaaaaaaaaaaaaaaaaaaaaaaaaaaaaaaaaaaaaaaaaaaaaaaaaaaaaaaaaaaaaaaaaaaaaaaaaaaaaaaaaaaaaaaaaaaa",
    // 250 bytes (NAME_MAX is 255)
    "bcbcbcbcbcbcbcbcbcbcbcbcbcbcbcbcbcbcbcbcbcbcbcbcbcbcbcbcbcbcbcbcbcbcbcbcbcbcbcbcbcbcbcbcbcbcbcbcbcbcbcbcbcbcbcbcbcbcbcbcbcbcbcbcbcbcbcbcbcbcbcbcbcbcbcbcbcbcbcbcbcbcbcbcbcbcbcbcbcbcbcbcbcbcbcbcbcbcbcbcbcbcbcbcbcbcbcbcbcbcbcbcbcbcbcbcbcbcbcbcbcbcbcbcbcbcbc",
];

#[derive(Clone, Copy, Debug, PartialEq, Eq)]
pub enum Tier {
    Quick,
    Thorough,
}

#[derive(Clone, Copy, Debug, PartialEq, Eq)]
pub enum LinkMode {
    None,
    /// links to files and to directories, never producing a cycle, dangling link or loop
    Safe,
    /// everything: cycles, chains, dangling, self-referential
    All,
}

pub struct Gen<'a> {
    pub rng: &'a mut Rng,
    pub tier: Tier,
    pub names: Vec<&'static str>,
    /// one tree in `spine_odds` is a deep spine (depth up to 13: walkdir keeps at most 10 directory
    /// handles open and switches the representation of the older ones beyond that)
    pub spine_odds: usize,
    /// a base that is a link to a directory, in percent of the draws that allow one
    pub link_base_pct: usize,
    /// a foreign tree (another file system) behind a link, in percent of the trees that have links
    pub foreign_pct: usize,
}

/// Names (first) with a partner that Unicode simple case folding identifies with them.
const FOLD_FAMILY: &[[&str; 2]] = &[["ǆ", "ǅ"], ["µs", "μS"], ["ς", "Σ"]];

/// A different spelling of `name` that a case-insensitive match identifies with it: partner letters
/// where simple case folding knows some that plain lowercase/uppercase conversion does not
/// (`ǆ ǅ Ǆ`, `µ μ`, `ς σ Σ`, `s ſ`, `k K`), the other case otherwise.
fn fold_variant(name: &str, salt: usize) -> String {
    name.chars()
        .enumerate()
        .flat_map(|(i, c)| {
            let alt: &[char] = match c {
                'ǆ' | 'ǅ' | 'Ǆ' => &['ǅ', 'Ǆ', 'ǆ'],
                'µ' | 'μ' | 'Μ' => &['μ', 'Μ', 'µ'],
                'ς' | 'σ' | 'Σ' => &['σ', 'Σ', 'ς'],
                's' | 'S' => &['ſ', 'S', 's'],
                'k' | 'K' => &['\u{212A}', 'K', 'k'],
                _ => &[],
            };
            let picks: Vec<char> = alt.iter().copied().filter(|a| *a != c).collect();
            if !picks.is_empty() {
                vec![picks[(salt + i) % picks.len()]]
            }
            else if c.is_lowercase() {
                c.to_uppercase().collect()
            }
            else {
                c.to_lowercase().collect()
            }
        })
        .collect()
}

fn esc(name: &str) -> String {
    // (pattern text is text: an invalid byte in a name is matched through its lossy rendering)
    wax::escape(&lossy(name)).into_owned()
}

impl<'a> Gen<'a> {
    pub fn new(rng: &'a mut Rng, tier: Tier) -> Self {
        let k = rng.range(3, 8);
        let mut names: Vec<&'static str> = vec!["a"];
        if rng.chance(3, 4) {
            names.push("b");
        }
        while names.len() < k {
            let n = *rng.pick(NAME_POOL);
            if !names.contains(&n) {
                names.push(n);
            }
        }
        // a name with a folding partner often comes with it (`ǆ` with `ǅ`, `µs` with `μs`)
        for n in names.clone() {
            if let Some(p) = FOLD_FAMILY.iter().find(|f| f[0] == n) {
                if rng.chance(1, 2) {
                    names.push(p[1]);
                }
            }
        }
        Gen {
            rng,
            tier,
            names,
            spine_odds: 50,
            link_base_pct: 7,
            foreign_pct: 0,
        }
    }

    // ------------------------------------------------------------------ trees

    pub fn tree(&mut self, links: LinkMode) -> Vec<Node> {
        let cap = match self.tier {
            Tier::Quick => 20,
            Tier::Thorough => 60,
        };
        let n = if self.rng.chance(1, 2) { self.rng.range(2, 8) } else { self.rng.range(6, cap) };
        let spine = self.rng.chance(1, self.spine_odds);
        // one tree in ten holds a few named pipes among its files
        let specials = self.rng.chance(1, 10);
        let max_depth = if spine { 13 } else { self.rng.range(2, 6) };
        let mut tree: Vec<Node> = Vec::new();
        let mut dirs: Vec<String> = vec![String::new()];
        let mut last_dir = String::new();
        let mut attempts = 0;
        while tree.len() < n && attempts < n * 6 {
            attempts += 1;
            let par = if self.rng.chance(if spine { 9 } else { 4 }, 10) {
                last_dir.clone()
            }
            else {
                self.rng.pick(&dirs).clone()
            };
            let nm = *self.rng.pick(&self.names.clone());
            let path = join(&par, nm);
            if tree.iter().any(|t| t.path == path) {
                continue;
            }
            let can_dir = depth_of(&path) < max_depth;
            let kind = if can_dir && self.rng.chance(if spine { 8 } else { 5 }, 10) {
                Kind::Dir
            }
            else if specials && self.rng.chance(1, 4) {
                // an entry that is neither file, directory nor link
                Kind::Fifo
            }
            else {
                Kind::File
            };
            if kind == Kind::Dir {
                dirs.push(path.clone());
                last_dir = path.clone();
            }
            tree.push(Node {
                path,
                kind,
                mode: None,
            });
        }
        // Scale, rarely: one very wide directory (hundreds of entries: listing buffers, sort, handle
        // reuse) or one very deep chain (far beyond walkdir's ten open handles).
        match self.rng.below(160) {
            0 => {
                let d = self.rng.pick(&dirs).clone();
                let k = if self.rng.chance(1, 5) { self.rng.range(900, 1100) } else { self.rng.range(64, 300) };
                for i in 0..k {
                    let path = join(&d, &format!("w{}", i));
                    let kind = if self.rng.chance(1, 6) { Kind::Dir } else { Kind::File };
                    if kind == Kind::Dir && self.rng.chance(2, 3) {
                        tree.push(Node { path: path.clone(), kind, mode: None });
                        if self.rng.chance(1, 2) {
                            tree.push(Node { path: join(&path, self.names[0]), kind: Kind::File, mode: None });
                        }
                        else {
                            // a non-empty directory one level further down
                            let sub = join(&path, self.names[self.names.len() - 1]);
                            tree.push(Node { path: sub.clone(), kind: Kind::Dir, mode: None });
                            tree.push(Node { path: join(&sub, "leaf"), kind: Kind::File, mode: None });
                        }
                    }
                    else {
                        tree.push(Node { path, kind, mode: None });
                    }
                }
                // a few non-empty directories of another name among them
                for j in 0..self.rng.below(3) {
                    let path = join(&d, &format!("x{}", j));
                    if !tree.iter().any(|t| t.path == path) {
                        tree.push(Node { path: path.clone(), kind: Kind::Dir, mode: None });
                        tree.push(Node { path: join(&path, "leaf"), kind: Kind::File, mode: None });
                        tree.push(Node { path: join(&path, self.names[0]), kind: Kind::File, mode: None });
                    }
                }
            },
            1 => {
                let mut d = self.rng.pick(&dirs).clone();
                // (sometimes far deeper: thresholds such as 64 or 100 levels)
                let very = self.rng.chance(3, 10);
                let k = if very { self.rng.range(60, 140) } else { self.rng.range(16, 40) };
                for i in 0..k {
                    let nm = if very || i % 3 == 0 { "d".to_string() } else { self.names[i % self.names.len()].to_string() };
                    let path = join(&d, &nm);
                    if tree.iter().any(|t| t.path == path) {
                        break;
                    }
                    tree.push(Node { path: path.clone(), kind: Kind::Dir, mode: None });
                    if self.rng.chance(1, 2) {
                        tree.push(Node { path: join(&path, "leaf"), kind: Kind::File, mode: None });
                    }
                    d = path;
                }
            },
            _ => {},
        }
        // Twins, sometimes: a directory's subtree repeated under a sibling name, so that what a walk
        // remembers from one directory (a name already found, a depth, a text) meets the same shape
        // again next door.
        if self.rng.chance(1, 10) {
            let with_kids: Vec<String> = dirs
                .iter()
                .filter(|d| !d.is_empty() && tree.iter().any(|n| parent(&n.path) == d.as_str()))
                .cloned()
                .collect();
            if !with_kids.is_empty() {
                let d = self.rng.pick(&with_kids).clone();
                let nm = *self.rng.pick(&self.names.clone());
                let twin = join(parent(&d), nm);
                let sub: Vec<Node> = tree.iter().filter(|n| is_below(&n.path, &d)).cloned().collect();
                if !tree.iter().any(|t| t.path == twin) && sub.len() <= 12 {
                    tree.push(Node { path: twin.clone(), kind: Kind::Dir, mode: None });
                    dirs.push(twin.clone());
                    for n in sub {
                        let p = join(&twin, rel_to(&n.path, &d));
                        if n.kind == Kind::Dir {
                            dirs.push(p.clone());
                        }
                        tree.push(Node { path: p, kind: n.kind, mode: None });
                    }
                }
            }
        }
        // PATH_MAX: no absolute path of the world may come near 4096 bytes (a long name repeated
        // down a deep chain would), or the world could not even be built
        tree.retain(|n| n.path.len() <= 3000);
        dirs.retain(|d| d.len() <= 3000);
        if links != LinkMode::None {
            let nl = match self.rng.below(4) {
                0 => 0,
                1 | 2 => self.rng.range(1, 2),
                _ => self.rng.range(2, 4),
            };
            for _ in 0..nl {
                self.add_link(&mut tree, links);
            }
            // rarely a long chain of links (link -> link -> ... -> a directory or file)
            if self.rng.chance(1, 60) {
                let targets: Vec<String> = tree.iter().filter(|n| !matches!(n.kind, Kind::Link { .. })).map(|n| n.path.clone()).collect();
                let par = self.rng.pick(&dirs).clone();
                if !targets.is_empty() && !tree.iter().any(|t| t.path == join(&par, "c0")) {
                    let end = self.rng.pick(&targets).clone();
                    let k = self.rng.range(6, 24);
                    let before = tree.len();
                    for i in 0..k {
                        let target = if i + 1 == k { Self::rel_target(&par, &end) } else { format!("c{}", i + 1) };
                        tree.push(Node { path: join(&par, &format!("c{}", i)), kind: Kind::Link { target }, mode: None });
                    }
                    let m = Model::from_tree(&tree).unwrap();
                    let visits = m.traverse("", Link::ReadTarget, None);
                    // no walked path may come near the kernel's limit of 40 followed links per
                    // lookup (a path that passes through the chain more than once would make the
                    // lookup of ordinary entries beneath it fail, which the model does not describe)
                    let bad = visits.len() > 600
                        || visits.iter().any(|v| m.hops(&v.path) > 30)
                        || (links == LinkMode::Safe
                            && visits.iter().any(|v| matches!(v.fault, Some(Fault::Cycle { .. }) | Some(Fault::Dangling) | Some(Fault::ELoop))));
                    if bad {
                        tree.truncate(before);
                    }
                }
            }
            // A foreign tree: a few files and directories on another file system, reachable through
            // one or two links only (absolute targets `$F...`). Appended last, so that nothing above
            // ever picks a foreign node as a place to put something.
            if self.rng.chance(self.foreign_pct, 100) {
                let (n0, n1) = (self.names[0], self.names[self.names.len() - 1]);
                let sub = format!("{}/{}", F, n1);
                let mut foreign = vec![
                    Node { path: F.to_string(), kind: Kind::Dir, mode: None },
                    Node { path: format!("{}/{}", F, n0), kind: Kind::File, mode: None },
                ];
                if n1 != n0 {
                    foreign.push(Node { path: sub.clone(), kind: Kind::Dir, mode: None });
                    foreign.push(Node { path: format!("{}/{}", sub, n0), kind: Kind::File, mode: None });
                    if self.rng.chance(1, 2) {
                        foreign.push(Node { path: format!("{}/x.txt", sub), kind: Kind::File, mode: None });
                        foreign.push(Node { path: format!("{}/d", sub), kind: Kind::Dir, mode: None });
                        foreign.push(Node { path: format!("{}/d/{}", sub, n1), kind: Kind::File, mode: None });
                    }
                }
                let mut linked = false;
                for _ in 0..self.rng.range(1, 2) {
                    let par = self.rng.pick(&dirs).clone();
                    let nm = *self.rng.pick(&self.names.clone());
                    let path = join(&par, nm);
                    if tree.iter().any(|t| t.path == path) || path.len() > 3000 {
                        continue;
                    }
                    let target = if n1 != n0 && self.rng.chance(1, 2) { sub.clone() } else { F.to_string() };
                    tree.push(Node { path, kind: Kind::Link { target }, mode: None });
                    linked = true;
                }
                if linked {
                    tree.extend(foreign);
                }
            }
        }
        tree
    }

    pub fn rel_target(from_dir: &str, to: &str) -> String {
        let f: Vec<&str> = from_dir.split('/').filter(|c| !c.is_empty()).collect();
        let t: Vec<&str> = to.split('/').filter(|c| !c.is_empty()).collect();
        let mut k = 0;
        while k < f.len() && k < t.len() && f[k] == t[k] {
            k += 1;
        }
        let mut parts: Vec<&str> = Vec::new();
        for _ in k..f.len() {
            parts.push("..");
        }
        parts.extend(&t[k..]);
        if parts.is_empty() {
            ".".to_string()
        }
        else {
            parts.join("/")
        }
    }

    fn add_link(&mut self, tree: &mut Vec<Node>, mode: LinkMode) {
        let dirs: Vec<String> = std::iter::once(String::new())
            .chain(tree.iter().filter(|n| n.kind == Kind::Dir).map(|n| n.path.clone()))
            .collect();
        let par = self.rng.pick(&dirs).clone();
        let nm = *self.rng.pick(&self.names.clone());
        let path = join(&par, nm);
        if tree.iter().any(|t| t.path == path) {
            return;
        }
        let all: Vec<String> = tree.iter().map(|n| n.path.clone()).collect();
        let dir_link_count = {
            let m = Model::from_tree(tree).unwrap();
            tree.iter()
                .filter(|n| matches!(n.kind, Kind::Link { .. }))
                .filter(|n| m.resolve(&n.path, true).map_or(false, |c| m.is_dir_node(&c)))
                .count()
        };
        let choice = match mode {
            LinkMode::Safe => self.rng.weighted(&[5, 5, 0, 0, 0, 0]),
            _ => self.rng.weighted(&[3, 3, 3, 2, 1, 1]),
        };
        let target_world: Option<String> = match choice {
            // a file
            0 => {
                let files: Vec<&String> = all
                    .iter()
                    .filter(|p| tree.iter().any(|n| &n.path == *p && n.kind == Kind::File))
                    .collect();
                if files.is_empty() { None } else { Some((*self.rng.pick(&files)).clone()) }
            },
            // a directory that is not an ancestor
            1 => {
                let c: Vec<&String> = dirs
                    .iter()
                    .filter(|d| !d.is_empty() && !is_under(&path, d))
                    .collect();
                if c.is_empty() || dir_link_count >= 3 { None } else { Some((*self.rng.pick(&c)).clone()) }
            },
            // an ancestor (cycle)
            2 => {
                let c: Vec<&String> = dirs.iter().filter(|d| is_under(&par, d)).collect();
                if dir_link_count >= 3 { None } else { Some((*self.rng.pick(&c)).clone()) }
            },
            // another link (chain / through-link)
            3 => {
                let c: Vec<&String> = all
                    .iter()
                    .filter(|p| {
                        tree.iter()
                            .any(|n| &n.path == *p && matches!(n.kind, Kind::Link { .. }))
                    })
                    .collect();
                if c.is_empty() || dir_link_count >= 3 { None } else { Some((*self.rng.pick(&c)).clone()) }
            },
            // dangling
            4 => Some(join(&par, "nowhere")),
            // self-referential
            _ => Some(path.clone()),
        };
        let Some(tw) = target_world
        else {
            return;
        };
        let target = if self.rng.chance(3, 10) {
            if tw.is_empty() { R.to_string() } else { format!("{}/{}", R, tw) }
        }
        else {
            Self::rel_target(&par, &tw)
        };
        tree.push(Node {
            path,
            kind: Kind::Link { target },
            mode: None,
        });
        // Keep link expansion bounded and, in safe mode, free of link faults.
        let m = Model::from_tree(tree).unwrap();
        let visits = m.traverse("", Link::ReadTarget, None);
        let bad = visits.len() > 400
            || (mode == LinkMode::Safe
                && visits.iter().any(|v| {
                    matches!(
                        v.fault,
                        Some(Fault::Cycle { .. }) | Some(Fault::Dangling) | Some(Fault::ELoop)
                    )
                }));
        if bad {
            tree.pop();
        }
    }

    // ------------------------------------------------------------------ globs

    fn other_name(&mut self, not: &str) -> String {
        for _ in 0..4 {
            let n = *self.rng.pick(&self.names.clone());
            if n != not {
                return n.to_string();
            }
        }
        "zz".to_string()
    }

    fn simple(name: &str) -> bool {
        name.chars().all(|c| c.is_ascii_alphanumeric())
    }

    /// One glob component derived from a file name.
    pub fn component(&mut self, name: &str) -> String {
        let name: &str = &lossy(name);
        let chars: Vec<char> = name.chars().collect();
        let w = self.rng.weighted(&[40, 14, 8, 5, 5, 3, 9, 3, 4, 4, 3, 2, 3]);
        match w {
            0 => esc(name),
            1 => "*".to_string(),
            2 => {
                if self.rng.chance(1, 2) {
                    format!("{}*", esc(&chars[0].to_string()))
                }
                else {
                    format!("*{}", esc(&chars[chars.len() - 1].to_string()))
                }
            },
            3 => {
                let i = self.rng.below(chars.len());
                chars
                    .iter()
                    .enumerate()
                    .map(|(j, c)| if i == j { "?".to_string() } else { esc(&c.to_string()) })
                    .collect()
            },
            4 if Self::simple(&chars[0].to_string()) => {
                let rest: String = chars[1..].iter().collect();
                let o = self.other_name(name);
                let oc = o.chars().next().unwrap();
                if Self::simple(&oc.to_string()) {
                    format!("[{}{}]{}", chars[0], oc, esc(&rest))
                }
                else {
                    format!("[{}]{}", chars[0], esc(&rest))
                }
            },
            5 if Self::simple(&chars[0].to_string()) => {
                let rest: String = chars[1..].iter().collect();
                format!("[!{}]{}", if chars[0] == 'z' { 'y' } else { 'z' }, esc(&rest))
            },
            6 => {
                let o = self.other_name(name);
                if self.rng.chance(1, 2) {
                    format!("{{{},{}}}", esc(name), esc(&o))
                }
                else {
                    format!("{{{},{}}}", esc(&o), esc(name))
                }
            },
            7 => {
                // alternation with a separator inside a branch
                let o = self.other_name(name);
                let o2 = self.other_name("");
                format!("{{{},{}/{}}}", esc(name), esc(&o), esc(&o2))
            },
            8 if chars.len() >= 2 && chars.iter().all(|c| *c == chars[0]) && self.rng.chance(2, 3) => {
                // a run of one character: repetition of that character with bounds around the count
                let n = chars.len();
                let c = esc(&chars[0].to_string());
                match self.rng.below(5) {
                    0 => format!("<{}:{}>", c, n),
                    1 => format!("<{}:{},{}>", c, n, n + 1),
                    2 => format!("<{}:{},{}>", c, n - 1, n),
                    3 => format!("<{}:{},>", c, n),
                    _ => format!("<{}:1,{}>", c, n + 1),
                }
            },
            8 => {
                let (lo, hi) = (self.rng.range(0, 1), self.rng.range(1, 3));
                match self.rng.below(3) {
                    0 => format!("<{}:{},{}>", esc(name), lo, hi),
                    1 => format!("<{}:{}>", esc(name), 1),
                    _ => format!("<{}:{},>", esc(name), lo),
                }
            },
            9 => {
                let salt = self.rng.below(6);
                let flipped: String = fold_variant(name, salt);
                if self.rng.chance(1, 2) {
                    format!("(?i){}", esc(&flipped))
                }
                else {
                    format!("(?i){}(?-i)", esc(&flipped))
                }
            },
            10 => format!("{}$", esc(&chars[0].to_string())),
            11 => format!("{{{}}}", esc(name)),
            // a case flag toggled in the middle of a component
            12 if chars.len() >= 2 => {
                let cut = self.rng.range(1, chars.len() - 1);
                let flip = |cs: &[char]| -> String {
                    cs.iter()
                        .flat_map(|c| {
                            if c.is_lowercase() {
                                c.to_uppercase().collect::<Vec<char>>()
                            }
                            else {
                                c.to_lowercase().collect::<Vec<char>>()
                            }
                        })
                        .collect()
                };
                let (pre, post): (String, String) = (chars[..cut].iter().collect(), chars[cut..].iter().collect());
                if self.rng.chance(1, 2) {
                    format!("{}(?i){}", esc(&pre), esc(&flip(&chars[cut..])))
                }
                else {
                    format!("(?i){}(?-i){}", esc(&flip(&chars[..cut])), esc(&post))
                }
            },
            _ => esc(name),
        }
    }

    /// A glob expression (relative, no dot / root prefix) aimed at the entries below `base`.
    pub fn glob_expr(&mut self, model: &Model, base: &str) -> String {
        // (a base that is a link to a directory lists what its target lists)
        let canon = model.resolve(base, true).unwrap_or_else(|_| base.to_string());
        let base = canon.as_str();
        // whole-glob special shapes
        if self.rng.chance(12, 100) {
            let a = esc(self.names[0]);
            let b = esc(&self.other_name(self.names[0]));
            let shapes = [
                "**".to_string(),
                "*".to_string(),
                String::new(),
                "**/*".to_string(),
                "*/**".to_string(),
                "<*/>".to_string(),
                "<*/>*".to_string(),
                "<*/:1,2>*".to_string(),
                "<*/*/>".to_string(),
                format!("{{{}/**,{}}}", a, b),
                format!("**/{{{},{}/{}}}", a, b, a),
                format!("**/{}/**", a),
                format!("{}/**", a),
                format!("**/{}", a),
                format!("(?i){}*/[{}]", "a", "ab"),
                format!("{{{},{}}}/**/*", a, b),
                format!("**/<{}:1,2>", a),
                format!("<{}/:0,2>*", a),
                format!("<{}/:1,>{}", a, b),
                "?*/**/?*".to_string(),
                format!("{{{}/,{}/**/}}*", a, b),
                format!("{{{}/**/,{}/}}*", a, b),
                format!("{{{}/{{{}/**,{}}},{}}}", a, b, a, b),
                format!("*{{/**/{},/{}}}", a, b),
            ];
            return self.rng.pick(&shapes).clone();
        }
        // a very wide directory at or below the base: a selective wildcard for the wide level (nearly
        // every name there matches it), after a literal path to that directory
        let wide = model
            .nodes
            .iter()
            .filter(|(p, i)| i.children.len() > 60 && (p.as_str() == base || is_below(p, base)))
            .map(|(p, _)| p.clone())
            .next();
        if let Some(wide) = wide {
            if self.rng.chance(4, 10) {
                let a = esc(self.names[0]);
                let z = esc(self.names[self.names.len() - 1]);
                let tails = [
                    "w*/*".to_string(),
                    "w*/**".to_string(),
                    "w*/*/leaf".to_string(),
                    format!("{{w*,{}}}/*", z),
                    format!("w*/{{{},{}}}/**", a, z),
                    format!("*/{}/**", a),
                    format!("?*/{}", z),
                ];
                let tail = self.rng.pick(&tails).clone();
                let lead: Vec<String> = rel_to(&wide, base).split('/').filter(|c| !c.is_empty()).map(esc).collect();
                return if lead.is_empty() { tail } else { format!("{}/{}", lead.join("/"), tail) };
            }
        }
        // derive from a real path below base (or a made-up one)
        let below: Vec<&String> = model
            .nodes
            .keys()
            .filter(|p| is_below(p, base) && !is_foreign(p))
            .collect();
        let target: Vec<String> = if !below.is_empty() && self.rng.chance(85, 100) {
            rel_to(self.rng.pick(&below).as_str(), base)
                .split('/')
                .map(String::from)
                .collect()
        }
        else {
            let k = self.rng.range(1, 3);
            (0..k).map(|_| self.other_name("")).collect()
        };
        // an invariant group that contains a separator and ends in the middle of a component, followed
        // by variant text in that component: `{a/b}c*`, `<a/b:1>?`, `{a/b,a/b}*` (where the
        // invariant prefix ends is not where the group ends)
        if target.len() >= 2 && self.rng.chance(7, 100) {
            let k = self.rng.range(1, target.len() - 1);
            let head: Vec<String> = target[..k].iter().map(|n| esc(n)).collect();
            let name_k: Vec<char> = target[k].chars().collect();
            let cut = self.rng.range(1, name_k.len());
            let pre: String = name_k[..cut].iter().collect();
            let inner = format!("{}/{}", head.join("/"), esc(&pre));
            let group = match self.rng.below(4) {
                0 => format!("{{{}}}", inner),
                1 => format!("<{}:1>", inner),
                2 => format!("{{{},{}}}", inner, inner),
                _ => format!("<{}:1,1>", inner),
            };
            let tail_same = match self.rng.below(3) {
                0 => "*".to_string(),
                1 if cut < name_k.len() => format!("?{}", if cut + 1 < name_k.len() { "*" } else { "" }),
                _ => "*".to_string(),
            };
            let mut rest: Vec<String> = target[k + 1..].iter().map(|n| self.component(n)).collect();
            if self.rng.chance(1, 3) {
                rest.push("**".to_string());
            }
            let mut expr = format!("{}{}", group, tail_same);
            if !rest.is_empty() {
                expr = format!("{}/{}", expr, rest.join("/"));
            }
            return expr;
        }
        let mut comps: Vec<String> = target.iter().map(|n| self.component(n)).collect();
        // literal prefix bias: keep the first k components literal
        if self.rng.chance(35, 100) {
            let k = self.rng.range(1, comps.len().min(3));
            for i in 0..k {
                comps[i] = match self.rng.below(12) {
                    0 => format!("[{}]", target[i]).replace("[a*b]", "a\\*b"),
                    1 => format!("{{{}}}", esc(&target[i])),
                    2 => format!("<{}:1>", esc(&target[i])),
                    _ => esc(&target[i]),
                };
                // a class is only an invariant spelling of single simple characters
                if comps[i].starts_with('[') && !(target[i].chars().count() == 1 && Self::simple(&target[i])) {
                    comps[i] = esc(&target[i]);
                }
            }
        }
        // tree wildcards
        if self.rng.chance(30, 100) {
            comps.insert(0, "**".to_string());
        }
        if comps.len() >= 2 && self.rng.chance(20, 100) {
            let i = self.rng.range(1, comps.len() - 1);
            if comps[i - 1] != "**" {
                if self.rng.chance(1, 2) {
                    comps[i] = "**".to_string();
                }
                else {
                    comps.insert(i, "**".to_string());
                }
            }
        }
        if self.rng.chance(30, 100) && comps.last().map_or(true, |c| c != "**") {
            if self.rng.chance(1, 2) && !comps.is_empty() {
                let l = comps.len() - 1;
                comps[l] = "**".to_string();
            }
            else {
                comps.push("**".to_string());
            }
        }
        // never two adjacent tree wildcards
        comps.dedup_by(|a, b| a == "**" && b == "**");
        comps.join("/")
    }

    /// A buildable glob for walking; returns the expression and whether it is rooted.
    /// `dots`: 0 = no dot prefix, 1 = `../` runs only, 2 = `./` and `../` runs.
    pub fn walk_glob(
        &mut self,
        model: &Model,
        base: &str,
        dots: u8,
        allow_rooted: bool,
        rejections: &mut usize,
    ) -> (String, bool) {
        // `..` from a base that is a link is resolved by the kernel from the link's target: no dot
        // runs from anything but a plain directory (the world must never be left)
        let dots = if Self::plain_dirs(model).iter().any(|d| d == base) { dots } else { 0 };
        for _ in 0..12 {
            let kind = self.rng.weighted(&[78, if dots > 0 { 11 } else { 0 }, if allow_rooted { 11 } else { 0 }]);
            let (expr, rooted) = match kind {
                1 => {
                    // dot prefix: `./`, `../`, `../../` (staying inside the world)
                    // dots == 1: only `..` runs (a `./` prefix makes the underlying walk yield
                    // nothing, known finding F4b, which leaves stacked filters nothing to do)
                    let lo = if dots == 1 { 1 } else { 0 };
                    if depth_of(base) < lo {
                        continue;
                    }
                    let up = self.rng.range(lo, depth_of(base).min(2));
                    let mut start = base.to_string();
                    // (a dot component is invariant text however it is spelled: a literal, a class
                    // with one member, a singular alternative, an exact repetition)
                    let mut run: Vec<&str> = Vec::new();
                    if up == 0 {
                        run.push(if self.rng.chance(3, 4) { "." } else { *self.rng.pick(&["[.]", "{.}"]) });
                    }
                    for _ in 0..up {
                        start = parent(&start).to_string();
                        run.push(if self.rng.chance(3, 4) {
                            ".."
                        }
                        else {
                            *self.rng.pick(&["[.][.]", "[.].", ".[.]", "<.:2>", "{..}", "<[.]:2>", "{.}."])
                        });
                    }
                    let rest = self.glob_expr(model, &start);
                    let expr = if rest.is_empty() { run.join("/") } else { format!("{}/{}", run.join("/"), rest) };
                    (expr, false)
                },
                2 => (self.glob_expr(model, ""), true),
                _ => (self.glob_expr(model, base), false),
            };
            let text = crate::exec::glob_text(&expr, rooted, "/dev/shm/waxsim.0/r0000000000000000");
            // Sampling restriction: the invariant prefix of a glob is joined to the base as a native
            // path, and text cannot spell a name that is not valid UTF-8 (its lossy rendering names
            // a different, non-existent file); such a name may be matched by a variant component,
            // never by the literal prefix.
            let ok = crate::exec::guarded(|| {
                wax::Glob::new(&text).map_or(false, |g| !g.partition().0.to_string_lossy().contains('\u{FFFD}'))
            });
            match ok {
                Ok(true) => return (expr, rooted),
                Ok(false) => {},
                Err(_) => {
                    // `Glob::new` panicked: a totality matter (C05, not claimed); not sampled.
                    if std::env::var_os("WAXSIM_DEBUG").is_some() {
                        eprintln!("builder panic: {:?}", text);
                    }
                },
            }
            *rejections += 1;
        }
        ("**".to_string(), false)
    }

    // ------------------------------------------------------------------ negations

    /// One negation expression over the root-relative path space below `base`.
    pub fn not_expr(&mut self, model: &Model, base: &str) -> String {
        let canon = model.resolve(base, true).unwrap_or_else(|_| base.to_string());
        let base = canon.as_str();
        let below: Vec<&String> = model.nodes.keys().filter(|p| is_below(p, base) && !is_foreign(p)).collect();
        let pick_name = |g: &mut Self| -> String {
            if !below.is_empty() && g.rng.chance(8, 10) {
                name(g.rng.pick(&below).as_str()).to_string()
            }
            else {
                g.other_name("")
            }
        };
        let x = pick_name(self);
        let y = pick_name(self);
        let (ex, ey) = (esc(&x), esc(&y));
        // a long alternation (9-14 branches) mixing plain and tree-terminated branches, behind a
        // literal prefix, inside a repetition, or bare
        if self.rng.chance(4, 100) {
            let k = self.rng.range(9, 14);
            let mut branches: Vec<String> = (0..k)
                .map(|i| {
                    let n = if self.rng.chance(1, 2) { pick_name(self) } else { format!("n{}", i) };
                    if self.rng.chance(7, 10) { format!("{}/**", esc(&n)) } else { esc(&n) }
                })
                .collect();
            if self.rng.chance(1, 2) {
                // the plain branches first
                branches.sort_by_key(|b| b.ends_with("/**"));
            }
            let alt = format!("{{{}}}", branches.join(","));
            return match self.rng.below(4) {
                0 => format!("{}/{}", ex, alt),
                1 => format!("<{}:1>", alt),
                2 => format!("*/{}", alt),
                _ => alt,
            };
        }
        let w = self.rng.weighted(&[10, 10, 8, 8, 6, 5, 4, 3, 3, 5, 4, 4, 4, 3, 14, 3, 3, 4, 3, 3, 3, 2, 2, 3, 3, 2, 1, 2, 2, 1, 1, 2, 1]);
        // (for the shapes below: two names whose concatenation is a name too, if there are such)
        let (px, py) = {
            let ns = self.names.clone();
            let mut found = ("a".to_string(), "b".to_string());
            'outer: for p in &ns {
                for q in &ns {
                    if ns.iter().any(|n| *n == format!("{}{}", p, q)) {
                        found = (p.to_string(), q.to_string());
                        break 'outer;
                    }
                }
            }
            (esc(&found.0), esc(&found.1))
        };
        match w {
            // a tree wildcard at the edge of a *repetition* that is followed or preceded by text: the
            // separator between them is not optional (`<a/**/>b` does not match `ab`)
            // a repetition of whole components with bounds on both sides: it reaches only so deep
            31 => format!("<*/:{},{}>*", self.rng.range(0, 1), self.rng.range(1, 3)),
            32 => format!("{}/<*/:1,{}>*", ex, self.rng.range(1, 3)),
            27 => format!("<{}/**/>{}", px, py),
            28 => format!("<{}/**/:1,2>{}/**", px, py),
            29 => format!("{}/<{}/**/>{}", ex, px, py),
            30 => format!("{}</**/{}:1,>", px, py),
            // wholly literal text under a case flag (nothing variant in it but the case), and a
            // class that holds nothing but a separator (which never matches)
            24 => format!("(?i){}", esc(&fold_variant(&x, self.rng.below(6)))),
            25 => format!("(?i){}/{}", esc(&fold_variant(&x, self.rng.below(6))), esc(&fold_variant(&y, self.rng.below(6)))),
            26 => format!("{}[/]{}", ex, ey),
            0 => format!("{}/**", ex),
            1 => format!("**/{}/**", ex),
            2 => format!("**/{}", ex),
            3 => format!("**/{{{},{}}}", ex, ey),
            4 => format!("**/<{}:1,2>", ex),
            5 => format!("**/*{}", esc(&x.chars().last().unwrap().to_string())),
            6 => ex.clone(),
            7 => String::new(),
            8 => if self.rng.chance(1, 2) { "*".to_string() } else { "**".to_string() },
            9 => format!("{{{}/**,{}}}", ex, ey),
            10 => format!("**/{}/*", ex),
            11 => format!("**/{{{}/**,{}}}", ex, ey),
            12 => format!("**/{{{}}}", ex),
            13 => format!("{}/**/{}", ex, ey),
            // a full glob in the walk grammar
            14 => self.glob_expr(model, base),
            15 => format!("<*/>{}", ex),
            16 => format!("**/{}/**/{}/**", ex, ey),
            // tree wildcards at the edge of a branch that is followed or preceded by more text
            // (their encoding depends on where the enclosing branch sits; `not` re-wraps the
            // pattern in one more alternation)
            17 => format!("{{{}/,{}/**/}}*", ex, ey),
            18 => format!("{{{}/**/,{}/}}*{}", ex, ey, esc(&x.chars().last().unwrap().to_string())),
            19 => format!("*{{/**/{},/{}}}", ex, ey),
            20 => format!("{{{}/{{{}/**,{}}},{}}}", ex, ey, ex, ey),
            // trailing separators, and a flag in the middle of the pattern
            21 => format!("{}/", ex),
            22 => format!("**/{}/", ex),
            _ => format!("**/(?i){}(?-i)/{}", esc(&x.to_uppercase()), if self.rng.chance(1, 2) { "**".to_string() } else { ey.clone() }),
        }
    }

    /// A negation in a random pattern form; every text builds on its own and in its combination.
    pub fn not_pattern(&mut self, model: &Model, base: &str, rejections: &mut usize) -> PatForm {
        for _ in 0..12 {
            let form = self.rng.weighted(&[30, 12, 8, 18, 10, 8]);
            let k = match form {
                0..=2 => 1,
                _ if self.rng.chance(1, 25) => self.rng.range(8, 20),
                _ => self.rng.range(1, 3),
            };
            let texts: Vec<String> = (0..k + 1).map(|_| self.not_expr(model, base)).collect();
            let pf = match form {
                0 => PatForm::Text(texts[0].clone()),
                1 => PatForm::Glob(texts[0].clone()),
                2 => PatForm::ResultGlob(texts[0].clone()),
                3 => PatForm::AnyText(texts[..k].to_vec()),
                4 => PatForm::AnyGlob(texts[..k].to_vec()),
                _ => PatForm::NestedAny(vec![texts[..1].to_vec(), texts[1..k + 1].to_vec()]),
            };
            if matches!(crate::exec::guarded(|| crate::oracle::reference_pattern(&pf).is_ok()), Ok(true)) {
                return pf;
            }
            *rejections += 1;
        }
        PatForm::Text("**/zz".to_string())
    }

    // ------------------------------------------------------------------ walkers

    pub fn spelling(&mut self) -> Spelling {
        match self.rng.weighted(&[30, 30, 10, 10, 10, 10, 6, 6]) {
            6 => Spelling::Odd { absolute: true, kind: self.rng.below(3) as u8 },
            7 => Spelling::Odd { absolute: false, kind: self.rng.below(3) as u8 },
            0 => Spelling::Absolute,
            1 => Spelling::Relative,
            2 => Spelling::AbsoluteSlash,
            3 => Spelling::AbsoluteSlashDot,
            4 => Spelling::RelativeSlash,
            _ => Spelling::RelativeSlashDot,
        }
    }

    pub fn order(&mut self, allow_victims: bool) -> Order {
        let salt = self.rng.next_u64();
        match self.rng.weighted(&[40, 8, 8, 6, 6, 12, if allow_victims { 10 } else { 0 }, if allow_victims { 10 } else { 0 }]) {
            0 => Order::Keyed(salt),
            1 => Order::Lex,
            2 => Order::Rev,
            3 => Order::DirsFirst,
            4 => Order::FilesFirst,
            5 => Order::Native,
            6 => Order::VictimFirst(salt),
            _ => Order::VictimLast(salt),
        }
    }

    /// Real (non-link) directories reachable without passing a restricted directory.
    pub fn plain_dirs(model: &Model) -> Vec<String> {
        model
            .nodes
            .iter()
            .filter(|(p, i)| {
                i.kind == Kind::Dir
                    && i.mode.is_none()
                    && !is_foreign(p)
                    && {
                        // no restricted ancestor
                        let mut q: &str = p;
                        let mut ok = true;
                        while !q.is_empty() {
                            q = parent(q);
                            if model.get(q).map_or(false, |i| i.mode.is_some()) {
                                ok = false;
                            }
                        }
                        ok
                    }
            })
            .map(|(p, _)| p.clone())
            .collect()
    }

    /// A base directory for a walk: usually a plain directory, sometimes (if allowed) a symbolic
    /// link that resolves to a directory.
    pub fn pick_base(&mut self, model: &Model, root_bias: usize, allow_link: bool) -> String {
        if allow_link && self.rng.chance(self.link_base_pct, 100) {
            let plain = Self::plain_dirs(model);
            let links: Vec<String> = model
                .nodes
                .iter()
                .filter(|(p, i)| {
                    matches!(i.kind, Kind::Link { .. })
                        && plain.contains(&parent(p).to_string())
                        && model.resolve(p, true).map_or(false, |c| plain.contains(&c))
                })
                .map(|(p, _)| p.clone())
                .collect();
            if !links.is_empty() {
                return self.rng.pick(&links).clone();
            }
        }
        self.pick_dir(model, root_bias)
    }

    pub fn pick_dir(&mut self, model: &Model, root_bias: usize) -> String {
        if self.rng.chance(root_bias, 100) {
            return String::new();
        }
        let dirs = Self::plain_dirs(model);
        self.rng.pick(&dirs).clone()
    }
}
