//! Known findings: genuine defects of the code under test that are recorded rather than repaired.
//! The registry is `/verif/known_findings.json` (committed, never written at run time). Each entry
//! names a property, a clause and an *explanation predicate* implemented here: executable defect
//! model that decides, for one violation, whether **every** discrepancy it lists is accounted for by
//! this defect. One unexplained discrepancy and the violation is reported as new.

use serde::{Deserialize, Serialize};

use crate::oracle::Violation;
use crate::scenario::*;

#[derive(Serialize, Deserialize, Clone, Debug)]
pub struct Finding {
    pub id: String,
    pub property: String,
    pub clause: String,
    pub predicate: String,
    pub what: String,
}

#[derive(Serialize, Deserialize, Clone, Debug, Default)]
pub struct Registry {
    #[serde(default)]
    pub findings: Vec<Finding>,
    #[serde(default)]
    pub fixed: Vec<serde_json::Value>,
}

pub fn load(path: Option<&str>) -> Result<Registry, String> {
    match path {
        None => Ok(Registry::default()),
        Some(p) => {
            let text = std::fs::read_to_string(p).map_err(|e| format!("{}: {}", p, e))?;
            serde_json::from_str(&text).map_err(|e| format!("{}: {}", p, e))
        },
    }
}

fn first_component(expr: &str) -> &str {
    expr.split('/').next().unwrap_or("")
}

/// Does finding `f` explain violation `v` of scenario `sc` completely?
pub fn explains(f: &Finding, sc: &Scenario, v: &Violation) -> bool {
    if f.property != v.prop || f.clause != v.clause {
        return false;
    }
    let Some(w) = sc.walkers.get(v.walker)
    else {
        return false;
    };
    match f.predicate.as_str() {
        // F4b: a glob whose invariant prefix starts with the current-directory component `.`
        // yields nothing: `Path` drops interior `.` components, so the relative segment of an
        // entry never carries the `./` the complete program demands. Explains missing entries
        // only (never an extra one), and only for such globs.
        "curdir-prefix-yields-nothing" => {
            matches!(&w.source, Source::Glob { expr, rooted: false } if first_component(expr) == ".")
                && !v.items.is_empty()
                && v.items.iter().all(|i| i.starts_with("missing:"))
        },
        _ => false,
    }
}

pub fn explain<'a>(reg: &'a Registry, sc: &Scenario, v: &Violation) -> Option<&'a Finding> {
    reg.findings.iter().find(|f| explains(f, sc, v))
}
