//! Known findings: genuine defects of the code under test that are recorded rather than repaired.
//! The registry is `/verif/known_findings.json` (committed, never written at run time). Each entry
//! names a property, a clause and an *explanation predicate* implemented here: executable defect
//! model that decides, for one violation, whether **every** discrepancy it lists is accounted for by
//! this defect. One unexplained discrepancy and the violation is reported as new.

use serde::{Deserialize, Serialize};

use crate::oracle::Violation;
use crate::scenario::*;

#[derive(Serialize, Deserialize, Clone, Debug)]
pub struct Finding {
    pub id: String,
    pub property: String,
    pub clause: String,
    pub predicate: String,
    pub what: String,
}

#[derive(Serialize, Deserialize, Clone, Debug, Default)]
pub struct Registry {
    #[serde(default)]
    pub findings: Vec<Finding>,
    #[serde(default)]
    pub fixed: Vec<serde_json::Value>,
}

pub fn load(path: Option<&str>) -> Result<Registry, String> {
    match path {
        None => Ok(Registry::default()),
        Some(p) => {
            let text = std::fs::read_to_string(p).map_err(|e| format!("{}: {}", p, e))?;
            serde_json::from_str(&text).map_err(|e| format!("{}: {}", p, e))
        },
    }
}

/// Top-level components of an expression (split at separators outside `{}`, `<>`, `[]`).
fn top_components(expr: &str) -> Vec<String> {
    let mut comps = Vec::new();
    let mut cur = String::new();
    let (mut depth, mut esc) = (0i32, false);
    for ch in expr.chars() {
        if esc {
            cur.push(ch);
            esc = false;
            continue;
        }
        match ch {
            '\\' => {
                cur.push(ch);
                esc = true;
            },
            '{' | '<' | '[' => {
                depth += 1;
                cur.push(ch);
            },
            '}' | '>' | ']' => {
                depth -= 1;
                cur.push(ch);
            },
            '/' if depth == 0 => comps.push(std::mem::take(&mut cur)),
            _ => cur.push(ch),
        }
    }
    comps.push(cur);
    comps
}

/// `text` is one group: its first character opens a `{}` or `<>` whose closer is its last character.
fn single_group(text: &str) -> bool {
    let chars: Vec<char> = text.chars().collect();
    if chars.len() < 2 || !(chars[0] == '{' || chars[0] == '<') {
        return false;
    }
    let (mut depth, mut esc) = (0i32, false);
    for (i, ch) in chars.iter().enumerate() {
        if esc {
            esc = false;
            continue;
        }
        match ch {
            '\\' => esc = true,
            '{' | '<' | '[' => depth += 1,
            '}' | '>' | ']' => {
                depth -= 1;
                if depth == 0 {
                    return i + 1 == chars.len();
                }
            },
            _ => {},
        }
    }
    false
}

/// The expression shapes known finding F6 covers:
/// (a) "a branch after a tree wildcard" (`**/{a}`, `**/{a,bc}`, `**/<a:1,2>`, `**/*{/**/b,/a}`):
///     REPAIRED in the code under test (5a3010b) and no longer explained here, so that its return
///     is reported;
/// (b) the whole expression is one repetition whose body ends on a separator (`<*/>`, `<*/:1,>`,
///     `<<?>/>`), which only ever matches the empty path among paths without a trailing separator.
fn f6_shape(text: &str) -> bool {
    let comps = top_components(text);
    let last = comps.last().map(|s| s.as_str()).unwrap_or("");
    let has_group = |c: &str| {
        let mut esc = false;
        for ch in c.chars() {
            if esc {
                esc = false;
                continue;
            }
            match ch {
                '\\' => esc = true,
                '{' | '<' => return true,
                _ => {},
            }
        }
        false
    };
    let _ = last;
    // shape (a) — a `**` component followed by a component with a group — was repaired in the
    // code under test ("fixed" entry F6a): it explains nothing any more
    let _ = has_group;
    let a = false;
    let b = comps.len() == 1 && text.starts_with('<') && single_group(text) && {
        let inner = &text[1..text.len() - 1];
        let body = match inner.rfind(':') {
            Some(i) if inner[i + 1..].chars().all(|c| c.is_ascii_digit() || c == ',') => &inner[..i],
            _ => inner,
        };
        body.ends_with('/')
    };
    // (c) an optional repetition as the first component followed only by tree wildcards
    //     (`<a:0,>/**`, `<ab:0,3>/**`): with zero repetitions it matches the empty path, i.e. the
    //     walk root, "exhaustively", although it matches nothing else beneath the root
    //     — also behind leading tree wildcards (`**/<a:0,>/**`), which match the empty path too
    let k = comps.iter().take_while(|c| *c == "**").count();
    let c = comps.len() >= k + 2
        && comps[k].starts_with('<')
        && single_group(&comps[k])
        && {
            let inner = &comps[k][1..comps[k].len() - 1];
            match inner.rfind(':') {
                Some(i) if inner[i + 1..].chars().all(|c| c.is_ascii_digit() || c == ',') => inner[i + 1..].starts_with("0,") || &inner[i + 1..] == "0",
                _ => true,
            }
        }
        && comps[k + 1..].iter().all(|c| c == "**");
    a || b || c
}

fn first_component(expr: &str) -> &str {
    expr.split('/').next().unwrap_or("")
}

/// Does finding `f` explain violation `v` of scenario `sc` completely?
pub fn explains(f: &Finding, sc: &Scenario, v: &Violation, root_text: &str) -> bool {
    if f.property != v.prop || f.clause != v.clause {
        return false;
    }
    let Some(w) = sc.walkers.get(v.walker)
    else {
        return false;
    };
    match f.predicate.as_str() {
        // F4b: a glob whose invariant prefix starts with the current-directory component `.`
        // yields nothing: `Path` drops interior `.` components, so the relative segment of an
        // entry never carries the `./` the complete program demands. Explains missing entries
        // only (never an extra one), and only for such globs.
        // F12: under ReadTarget a link to a directory that cannot be opened produces an error item
        // without a path (walkdir looks for a cycle by opening the target and wraps the failure
        // without one). Explains only the "names no path" items of such links.
        "pathless-error-for-link-to-unopenable-directory" => {
            // (the path may itself lead through followed links: the node it denotes is a link)
            let model = crate::model::Model::from_tree(&sc.tree).ok();
            !v.items.is_empty()
                && v.items.iter().all(|i| match (i.strip_prefix("pathless:"), &model) {
                    (Some(p), Some(m)) => match m.resolve(p, false) {
                        Ok(node) => matches!(m.get(&node).map(|i| &i.kind), Some(Kind::Link { .. })),
                        Err(_) => false,
                    },
                    _ => false,
                })
        },
        "curdir-prefix-yields-nothing" => {
            matches!(&w.source, Source::Glob { expr, rooted: false } if dot_kind(first_component(expr)) == Some("."))
                && !v.items.is_empty()
                && v.items.iter().all(|i| i.starts_with("missing:"))
        },
        // F6: a negation alternative that reports `is_exhaustive() == Always` although some
        // matched directory has a descendant it does not match (`**/{a}`, `**/{a,bc}`,
        // `**/<a:1,2>`): `not` prunes the directory and loses the descendant. An item is explained
        // only by a direct witness of the unsound verdict: an alternative `t` that claims Always, a
        // proper ancestor directory `D` of the lost entry `e` with `t` matching `D` but not `e`.
        // On an implementation whose Always verdicts are sound no such witness exists.
        "false-always-exhaustive" => {
            use wax::Program;
            let Some(Layer::Not(pf)) = w.layers.first()
            else {
                return false;
            };
            if w.layers.len() != 1 {
                return false;
            }
            let space = crate::oracle::Space::of(w, root_text);
            let texts = crate::exec::subst_pattern(pf, root_text).texts();
            // ... and only for the expression shapes this finding is about (so that another defect
            // that makes some *other* shape claim Always is still reported)
            let flat: Vec<String> = texts.iter().flat_map(|t| crate::oracle::flatten_alternatives(t)).collect();
            let exhaustive: Vec<wax::Glob> = flat
                .iter()
                .filter(|t| f6_shape(t))
                .filter_map(|t| wax::Glob::new(t).ok().map(|g| g.into_owned()))
                .filter(|g| matches!(g.is_exhaustive(), wax::query::When::Always))
                .collect();
            !v.items.is_empty()
                && v.items.iter().all(|item| {
                    let Some(e) = item.strip_prefix("missing:").or_else(|| item.strip_prefix("unfed:"))
                    else {
                        return false;
                    };
                    if !is_below(e, &space.start) && e != space.start {
                        return false;
                    }
                    let re = space.rel(e);
                    let mut d = e;
                    while d != space.start && !d.is_empty() {
                        d = parent(d);
                        if !is_under(d, &space.start) {
                            break;
                        }
                        let rd = space.rel(d);
                        if exhaustive
                            .iter()
                            .any(|t| t.is_match(rd.as_str()) && !t.is_match(re.as_str()))
                        {
                            return true;
                        }
                    }
                    false
                })
        },
        _ => false,
    }
}

pub fn explain<'a>(reg: &'a Registry, sc: &Scenario, v: &Violation, root_text: &str) -> Option<&'a Finding> {
    reg.findings.iter().find(|f| explains(f, sc, v, root_text))
}
