//! The simulated world: a real directory tree on tmpfs built from the scenario's specification.
//! Faults are produced by the kernel (chmod, symlinks, concurrent mutation), not by a stub.

use std::fs;
use std::os::unix::fs::{symlink, PermissionsExt};
use std::path::{Path, PathBuf};

use crate::scenario::{Kind, MutOp, Mutation, Node, R};

pub struct World {
    /// Absolute path of the world root (`$R`).
    pub root: PathBuf,
    pub root_text: String,
    /// Root of the foreign tree (`$F`), on another file system if the environment has one.
    pub foreign: Option<PathBuf>,
}

/// Where foreign trees are built: a directory of this process under `/tmp` (a disk in this sandbox,
/// while worlds are on the tmpfs `/dev/shm`); if that cannot be made, beside the world (the same
/// device: nothing that depends on device numbers manifests then, nothing else changes).
extern "C" {
    fn mkfifo(path: *const std::os::raw::c_char, mode: u32) -> i32;
}

fn foreign_root(root: &Path) -> PathBuf {
    let tag = crate::rng::hash_bytes(0, root.to_string_lossy().as_bytes());
    for top in ["/tmp", "/var/tmp"] {
        let p = PathBuf::from(format!("{}/waxsim-f.{}.{:x}", top, std::process::id(), tag));
        nuke(&p);
        if fs::create_dir(&p).is_ok() {
            let _ = fs::set_permissions(&p, fs::Permissions::from_mode(0o755));
            return p;
        }
    }
    let p = PathBuf::from(format!("{}.foreign", root.to_string_lossy()));
    nuke(&p);
    let _ = fs::create_dir_all(&p);
    p
}

pub fn subst(text: &str, root_text: &str) -> String {
    text.replace(R, root_text)
}

fn os(text: &str) -> std::ffi::OsString {
    crate::scenario::to_os(text)
}

impl World {
    /// Builds the tree. Returns a harness error (never a violation) if the environment refuses.
    pub fn materialise(root: &Path, tree: &[Node]) -> Result<World, String> {
        if root.exists() {
            nuke(root);
        }
        fs::create_dir_all(root).map_err(|e| format!("mkdir {:?}: {}", root, e))?;
        let root_text = root.to_str().ok_or("non-UTF-8 scratch path")?.to_string();
        let foreign = if tree.iter().any(|n| crate::scenario::is_foreign(&n.path)) { Some(foreign_root(root)) } else { None };
        let world = World {
            root: root.to_path_buf(),
            root_text,
            foreign,
        };
        for node in tree {
            if node.path == crate::scenario::F {
                continue;
            }
            let p = world.abs(&node.path);
            match &node.kind {
                Kind::File => {
                    fs::write(&p, b"").map_err(|e| format!("create {:?}: {}", p, e))?;
                },
                Kind::Dir => {
                    fs::create_dir(&p).map_err(|e| format!("mkdir {:?}: {}", p, e))?;
                },
                Kind::Fifo => {
                    use std::os::unix::ffi::OsStrExt;
                    let c = std::ffi::CString::new(p.as_os_str().as_bytes()).map_err(|e| e.to_string())?;
                    if unsafe { mkfifo(c.as_ptr(), 0o644) } != 0 {
                        return Err(format!("mkfifo {:?}: {}", p, std::io::Error::last_os_error()));
                    }
                },
                Kind::Link { target } => {
                    symlink(os(&world.subst(target)), &p)
                        .map_err(|e| format!("symlink {:?}: {}", p, e))?;
                },
            }
        }
        world.verify(tree)?;
        // Apply modes children-first, so that a restricted parent does not block chmod of a child.
        for node in tree.iter().rev() {
            if let Some(mode) = node.mode {
                let p = world.abs(&node.path);
                fs::set_permissions(&p, fs::Permissions::from_mode(mode))
                    .map_err(|e| format!("chmod {:?}: {}", p, e))?;
            }
        }
        Ok(world)
    }

    /// Link target text with the placeholders replaced.
    pub fn subst(&self, text: &str) -> String {
        let t = subst(text, &self.root_text);
        match &self.foreign {
            Some(f) => t.replace(crate::scenario::F, &f.to_string_lossy()),
            None => t,
        }
    }

    pub fn abs(&self, rel: &str) -> PathBuf {
        if let (true, Some(f)) = (crate::scenario::is_foreign(rel), &self.foreign) {
            return if rel == crate::scenario::F { f.clone() } else { f.join(os(&rel[3..])) };
        }
        if rel.is_empty() {
            self.root.clone()
        }
        else {
            self.root.join(os(rel))
        }
    }

    /// Independent `std::fs` traversal: the materialised tree equals the specification.
    fn verify(&self, tree: &[Node]) -> Result<(), String> {
        let mut found: Vec<(String, char)> = Vec::new();
        fn rec(dir: &Path, rel: &str, out: &mut Vec<(String, char)>) -> Result<(), String> {
            for ent in fs::read_dir(dir).map_err(|e| format!("verify read_dir {:?}: {}", dir, e))? {
                let ent = ent.map_err(|e| e.to_string())?;
                let name = crate::scenario::from_os(&ent.file_name());
                let r = crate::scenario::join(rel, &name);
                let ft = ent.file_type().map_err(|e| e.to_string())?;
                if ft.is_symlink() {
                    out.push((r, 'l'));
                }
                else if ft.is_dir() {
                    out.push((r.clone(), 'd'));
                    rec(&ent.path(), &r, out)?;
                }
                else if std::os::unix::fs::FileTypeExt::is_fifo(&ft) {
                    out.push((r, 'p'));
                }
                else {
                    out.push((r, 'f'));
                }
            }
            Ok(())
        }
        rec(&self.root, "", &mut found)?;
        found.sort();
        let mut want: Vec<(String, char)> = tree
            .iter()
            .filter(|n| !crate::scenario::is_foreign(&n.path))
            .map(|n| {
                (
                    n.path.clone(),
                    match n.kind {
                        Kind::File => 'f',
                        Kind::Dir => 'd',
                        Kind::Link { .. } => 'l',
                        Kind::Fifo => 'p',
                    },
                )
            })
            .collect();
        want.sort();
        if found != want {
            return Err(format!(
                "materialised tree differs from specification: found {:?} want {:?}",
                found, want
            ));
        }
        Ok(())
    }

    /// Applies one mutation with real system calls; returns a short result text for the log.
    pub fn mutate(&self, m: &Mutation, serial: usize) -> String {
        let p = self.abs(&m.path);
        let res: Result<(), std::io::Error> = (|| match &m.op {
            MutOp::Remove => {
                nuke(&p);
                Ok(())
            },
            MutOp::Chmod(mode) => fs::set_permissions(&p, fs::Permissions::from_mode(*mode)),
            MutOp::ToFile => {
                nuke(&p);
                fs::write(&p, b"")
            },
            MutOp::ToDir(n) => {
                nuke(&p);
                fs::create_dir(&p)?;
                for i in 0..*n {
                    fs::write(p.join(format!("m{}_{}", serial, i)), b"")?;
                }
                Ok(())
            },
            MutOp::Add(n) => {
                for i in 0..*n {
                    fs::write(p.join(format!("m{}_{}", serial, i)), b"")?;
                }
                Ok(())
            },
            MutOp::Retarget(target) => {
                nuke(&p);
                symlink(os(&self.subst(target)), &p)
            },
            MutOp::FdLimit(spare) => {
                if crate::fdlimit::limit(*spare) { Ok(()) } else { Err(std::io::Error::other("setrlimit")) }
            },
            MutOp::FdRestore => {
                if crate::fdlimit::restore() { Ok(()) } else { Err(std::io::Error::other("setrlimit")) }
            },
        })();
        // `nuke` ignores errors: an unprivileged mutator cannot remove what lies in a directory it
        // may not write to (one whose permissions an earlier mutation revoked, say). A mutation that
        // was not carried out must say so, or the model of the run would describe another world.
        let res = match (&m.op, res) {
            // (gone means NotFound; anything else — still there, or not even visible — is a failure)
            (MutOp::Remove, Ok(())) if !matches!(fs::symlink_metadata(&p), Err(ref e) if e.kind() == std::io::ErrorKind::NotFound) => {
                Err(std::io::Error::from(std::io::ErrorKind::PermissionDenied))
            },
            (_, r) => r,
        };
        match res {
            Ok(()) => "ok".to_string(),
            Err(e) => format!("{:?}", e.kind()),
        }
    }

    pub fn destroy(&self) {
        if let Some(f) = &self.foreign {
            nuke(f);
        }
        nuke(&self.root);
    }
}

/// Removes a path of any kind, restoring permissions on the way down. Ignores errors.
pub fn nuke(p: &Path) {
    let md = match fs::symlink_metadata(p) {
        Ok(md) => md,
        Err(_) => return,
    };
    if md.file_type().is_dir() {
        let _ = fs::set_permissions(p, fs::Permissions::from_mode(0o700));
        if let Ok(rd) = fs::read_dir(p) {
            for ent in rd.flatten() {
                nuke(&ent.path());
            }
        }
        let _ = fs::remove_dir(p);
    }
    else {
        let _ = fs::remove_file(p);
    }
}
