//! Descriptor exhaustion as a fault: the soft `RLIMIT_NOFILE` of this process is lowered so that
//! only `spare` more descriptors can be opened, and raised again later. `opendir` then fails with
//! EMFILE wherever the walk happens to need one descriptor more — a failing system call at a point
//! the scheduler chooses, produced by the kernel and not by a stub.
//!
//! (Declared by hand instead of through the `libc` crate so that the dependency set of the
//! simulator stays what it is; Linux only, which is all this sandbox can execute.)

use std::sync::atomic::{AtomicU64, Ordering};

#[repr(C)]
struct Rlimit {
    cur: u64,
    max: u64,
}

extern "C" {
    fn getrlimit(resource: i32, rlim: *mut Rlimit) -> i32;
    fn setrlimit(resource: i32, rlim: *const Rlimit) -> i32;
    fn fcntl(fd: i32, cmd: i32, ...) -> i32;
}

const RLIMIT_NOFILE: i32 = 7;
const F_GETFD: i32 = 1;

/// The soft limit this process started with (0 = not recorded yet).
static ORIGINAL: AtomicU64 = AtomicU64::new(0);

fn get() -> Option<Rlimit> {
    let mut r = Rlimit { cur: 0, max: 0 };
    if unsafe { getrlimit(RLIMIT_NOFILE, &mut r) } == 0 {
        Some(r)
    }
    else {
        None
    }
}

/// Lowers the soft limit so that exactly `spare` descriptors below it are free.
pub fn limit(spare: usize) -> bool {
    let Some(r) = get()
    else {
        return false;
    };
    if ORIGINAL.load(Ordering::SeqCst) == 0 {
        ORIGINAL.store(r.cur, Ordering::SeqCst);
    }
    let original = ORIGINAL.load(Ordering::SeqCst);
    // descriptors are handed out lowest-first: walk upwards until `spare` free slots were passed
    let mut free = 0usize;
    let mut fd = 0u64;
    let top = original.min(4096);
    while fd < top {
        let open = unsafe { fcntl(fd as i32, F_GETFD) } != -1;
        if !open {
            if free == spare {
                break;
            }
            free += 1;
        }
        fd += 1;
    }
    let new = Rlimit { cur: fd.max(3), max: r.max };
    unsafe { setrlimit(RLIMIT_NOFILE, &new) == 0 }
}

/// Restores the soft limit the process started with (no-op if it was never lowered).
pub fn restore() -> bool {
    let original = ORIGINAL.load(Ordering::SeqCst);
    if original == 0 {
        return true;
    }
    let Some(r) = get()
    else {
        return false;
    };
    let new = Rlimit { cur: original, max: r.max };
    unsafe { setrlimit(RLIMIT_NOFILE, &new) == 0 }
}
