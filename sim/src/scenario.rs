//! A scenario is a plain, fully explicit value: nothing in it is "re-derive from the seed". Replay
//! files are scenarios plus the violated clause and the event log.

use serde::{Deserialize, Serialize};

/// Placeholder for the absolute path of the world root in texts (link targets, base paths, logs).
pub const R: &str = "$R";
/// Placeholder for the root of the *foreign* tree: nodes whose path is `$F` or begins with `$F/`
/// are built on another file system than the world (under `/tmp`), and are reachable from the world
/// only through links whose target begins with `$F`. Device boundaries are invisible to a walk
/// that follows links — unless it asks walkdir to stay on one file system.
pub const F: &str = "$F";

pub fn is_foreign(path: &str) -> bool {
    path == F || path.starts_with("$F/")
}

#[derive(Serialize, Deserialize, Clone, Debug, PartialEq, Eq)]
pub enum Kind {
    File,
    Dir,
    /// Symbolic link; `target` is the text written into the link (relative to the link's parent
    /// directory, or starting with `$R` for an absolute target inside the world).
    Link { target: String },
    /// A named pipe: an entry that is neither a regular file, nor a directory, nor a link (what a
    /// walk reports about an entry must not depend on the entry being one of those three).
    Fifo,
}

#[derive(Serialize, Deserialize, Clone, Debug, PartialEq, Eq)]
pub struct Node {
    /// Path relative to the world root, `/`-separated, never empty (the root is implicit).
    pub path: String,
    pub kind: Kind,
    /// Permission bits applied to a directory after the tree is built (`0` = unreadable,
    /// `0o444` = listable but not searchable). `None` = default.
    #[serde(default, skip_serializing_if = "Option::is_none")]
    pub mode: Option<u32>,
}

#[derive(Serialize, Deserialize, Clone, Debug, PartialEq, Eq)]
pub enum Source {
    /// `Path::walk_with_behavior`.
    Path,
    /// `Glob::walk_with_behavior`. If `rooted`, the expression handed to `Glob::new` is
    /// `escape(<abs path of world root>) + "/" + expr` (or just the escaped root if `expr` is empty).
    Glob { expr: String, rooted: bool },
}

#[derive(Serialize, Deserialize, Clone, Copy, Debug, PartialEq, Eq)]
pub enum Link {
    ReadFile,
    ReadTarget,
}

/// Depth behaviour together with the public constructor used to build it.
#[derive(Serialize, Deserialize, Clone, Copy, Debug, PartialEq, Eq)]
pub enum Depth {
    Unbounded,
    /// `DepthMax(n)`
    Max(usize),
    /// `DepthMin::from_min_or_unbounded(n)`
    Min(usize),
    /// `DepthMinMax::from_depths_or_max(p, q)` (arguments need not be ordered)
    MinMax(usize, usize),
    /// `DepthBehavior::bounded(min, max)`; scenarios where this returns `None` are not generated.
    Bounded(Option<usize>, Option<usize>),
    /// `DepthBehavior::bounded_at_depth_variance(min, max, glob.depth())`: the window is relative
    /// to the smallest depth the walker's own glob can match at, which the generator read from the
    /// public query and recorded here as the third field (so the documented window is explicit
    /// data of the scenario). Unrooted glob walks only.
    AtVariance(Option<usize>, Option<usize>, usize),
}

impl Depth {
    /// Depth bounds of a scenario are relative to the world root for rooted globs (whose root
    /// segment is empty, so that depth counts the components of the absolute path): the harness
    /// adds the component count of the world root's absolute path to every non-zero bound.
    pub fn shifted(&self, shift: usize) -> Depth {
        let s = |n: usize| if n == 0 { 0 } else { n.saturating_add(shift) };
        match *self {
            Depth::Unbounded => Depth::Unbounded,
            Depth::Max(n) => Depth::Max(n.saturating_add(shift)),
            Depth::Min(n) => Depth::Min(s(n)),
            Depth::MinMax(p, q) => Depth::MinMax(s(p), s(q)),
            Depth::Bounded(a, b) => Depth::Bounded(a.map(s), b.map(|n| n.saturating_add(shift))),
            // (never drawn for walks with a shift)
            Depth::AtVariance(a, b, l) => Depth::AtVariance(a, b, l),
        }
    }

    /// The effective window `(min, max)` the documentation promises.
    pub fn window(&self) -> (usize, Option<usize>) {
        match *self {
            Depth::Unbounded => (0, None),
            Depth::Max(n) => (0, Some(n)),
            Depth::Min(n) => (n, None),
            Depth::MinMax(p, q) => (p.min(q), Some(p.max(q))),
            Depth::Bounded(min, max) => (min.unwrap_or(0), max),
            Depth::AtVariance(min, max, lower) => (min.map_or(0, |m| m + lower), max.map(|m| m + lower)),
        }
    }
}

#[derive(Serialize, Deserialize, Clone, Debug, PartialEq, Eq)]
pub enum Order {
    /// H1 off: whatever order the file system lists (tmpfs: reverse creation order).
    Native,
    Lex,
    Rev,
    DirsFirst,
    FilesFirst,
    /// Salted hash of the file name: a uniform random permutation per directory.
    Keyed(u64),
    /// As `Keyed`, but entries in `victims` (world-relative paths) come first / last.
    VictimFirst(u64),
    VictimLast(u64),
}

#[derive(Serialize, Deserialize, Clone, Debug, PartialEq, Eq)]
pub enum PatForm {
    /// `&str`
    Text(String),
    /// compiled `Glob`
    Glob(String),
    /// `Result<Glob, BuildError>` handed over unchecked
    ResultGlob(String),
    /// `wax::any([&str, ...])`
    AnyText(Vec<String>),
    /// `wax::any([Glob, ...])`
    AnyGlob(Vec<String>),
    /// `wax::any([wax::any([...]), wax::any([...])])` handed over as `Result`
    NestedAny(Vec<Vec<String>>),
}

impl PatForm {
    pub fn texts(&self) -> Vec<String> {
        match self {
            PatForm::Text(t) | PatForm::Glob(t) | PatForm::ResultGlob(t) => vec![t.clone()],
            PatForm::AnyText(ts) | PatForm::AnyGlob(ts) => ts.clone(),
            PatForm::NestedAny(tss) => tss.iter().flatten().cloned().collect(),
        }
    }
    pub fn map_texts(&self, f: &mut dyn FnMut(&str) -> String) -> PatForm {
        match self {
            PatForm::Text(t) => PatForm::Text(f(t)),
            PatForm::Glob(t) => PatForm::Glob(f(t)),
            PatForm::ResultGlob(t) => PatForm::ResultGlob(f(t)),
            PatForm::AnyText(ts) => PatForm::AnyText(ts.iter().map(|t| f(t)).collect()),
            PatForm::AnyGlob(ts) => PatForm::AnyGlob(ts.iter().map(|t| f(t)).collect()),
            PatForm::NestedAny(tss) => PatForm::NestedAny(
                tss.iter()
                    .map(|ts| ts.iter().map(|t| f(t)).collect())
                    .collect(),
            ),
        }
    }
}

#[derive(Serialize, Deserialize, Clone, Copy, Debug, PartialEq, Eq, PartialOrd, Ord, Hash)]
pub enum Verdict {
    Keep,
    File,
    Tree,
}

#[derive(Serialize, Deserialize, Clone, Debug, PartialEq, Eq)]
pub enum Layer {
    Not(PatForm),
    /// `filter_entry` with a simulator-owned closure: verdict per **full path** of the entry
    /// (world-relative text; entries not listed are kept).
    Fe(Vec<(String, Verdict)>),
}

#[derive(Serialize, Deserialize, Clone, Debug, PartialEq, Eq)]
pub struct Walker {
    pub source: Source,
    /// World-relative path of the base directory handed to `walk` ("" = world root).
    pub base: String,
    /// How the base is spelled.
    pub spelling: Spelling,
    pub link: Link,
    pub depth: Depth,
    pub order: Order,
    /// World-relative paths steered by `VictimFirst` / `VictimLast`.
    #[serde(default)]
    pub victims: Vec<String>,
    pub layers: Vec<Layer>,
    /// H2 taps between all layers (and a pass-through observer closure last in the chain).
    pub taps: bool,
    /// H3: the stack is built with type erasure between the layers (any depth); otherwise it is the
    /// statically composed type, exactly as client code would write it (at most five layers).
    #[serde(default)]
    pub erased: bool,
    /// How the behaviour is handed to the walk (0: a `WalkBehavior` value; other forms — no
    /// argument at all, `()`, a bare `LinkBehavior`, `DepthBehavior`, `DepthMax`, ... — are used
    /// when they can express the same behaviour, see `exec::BehArg`).
    #[serde(default)]
    pub form: u8,
}

#[derive(Serialize, Deserialize, Clone, Debug, PartialEq, Eq)]
pub enum Spelling {
    /// `$R/<base>`
    Absolute,
    /// relative to the working directory (`.`, `..`, `x/y`, `../x`, ...)
    Relative,
    AbsoluteSlash,
    AbsoluteSlashDot,
    RelativeSlash,
    RelativeSlashDot,
    /// The same directory spelled with noise before its last component: `p//last` (kind 0),
    /// `p/./last` (kind 1) or the detour `p/../p/last` (kind 2; `p` is a plain directory for every
    /// base the generators draw). Falls back to the plain spelling when the text has no such place.
    Odd { absolute: bool, kind: u8 },
    /// A base *above* the world: the directory `levels` components above the world root (255 = the
    /// root of the file system, `/`, or `//` with `slash`), spelled absolutely (with a trailing
    /// separator if `slash`). Only for a walker whose world base is the world root and whose glob
    /// expression starts with the placeholder `$UP<levels>`, which stands for those components of the
    /// world root's path, escaped: a literal prefix, so the walk still never leaves the world.
    Above { levels: u8, slash: bool },
    /// The empty path `""`: what `Path::parent` and `Glob::partition` hand out for "here". Spelled
    /// so only where it denotes the base (the working directory is the base) — otherwise as the
    /// plain relative spelling — and only drawn for globs with a literal first component (a walk
    /// of `""` itself names no directory).
    Empty,
}

impl Spelling {
    pub fn is_absolute(&self) -> bool {
        matches!(self, Spelling::Absolute | Spelling::AbsoluteSlash | Spelling::AbsoluteSlashDot | Spelling::Odd { absolute: true, .. } | Spelling::Above { .. })
    }
}

#[derive(Serialize, Deserialize, Clone, Debug, PartialEq, Eq)]
pub enum MutOp {
    /// remove the subtree (or file / link)
    Remove,
    Chmod(u32),
    /// replace whatever is there by an empty regular file
    ToFile,
    /// replace whatever is there by a directory holding `n` fresh files
    ToDir(usize),
    /// add `n` fresh entries (files) to the directory
    Add(usize),
    /// retarget (or create) a symbolic link
    Retarget(String),
    /// descriptor exhaustion: from now on this process can open only this many more descriptors
    /// (`opendir` fails with EMFILE beyond that); the mutation's path is unused
    FdLimit(usize),
    /// the descriptor limit is lifted again
    FdRestore,
}

#[derive(Serialize, Deserialize, Clone, Debug, PartialEq, Eq)]
pub struct Mutation {
    /// World-relative path the mutation is aimed at.
    pub path: String,
    pub op: MutOp,
}

/// One actor choice of the explicit schedule.
#[derive(Serialize, Deserialize, Clone, Debug, PartialEq, Eq)]
pub enum Step {
    /// `next()` on walker `i`
    W(usize),
    /// apply mutation `i`
    M(usize),
    /// drop walker `i` without exhausting it (the consumer lost interest: cancellation at an
    /// arbitrary instant)
    D(usize),
    /// change the working directory of the process to this world directory (only in scenarios whose
    /// walkers all have absolute bases: nothing they do may depend on it)
    Cd(String),
}

/// A fault placed *inside* an operation: when a `filter_entry` closure of walker `w` is shown the
/// entry at `path`, the mutator applies mutation `mutation` before the closure returns (i.e. while
/// the item is in flight through the stack, not between two `next()` calls).
#[derive(Serialize, Deserialize, Clone, Debug, PartialEq, Eq)]
pub struct Trigger {
    pub w: usize,
    pub path: String,
    pub mutation: usize,
}

#[derive(Serialize, Deserialize, Clone, Debug, PartialEq, Eq)]
pub struct Scenario {
    pub prop: String,
    /// The seed this scenario was generated from (informational; replay never consults it).
    pub seed: u64,
    pub tree: Vec<Node>,
    /// Working directory of the process during the run (world-relative, a directory).
    pub cwd: String,
    pub walkers: Vec<Walker>,
    #[serde(default)]
    pub mutations: Vec<Mutation>,
    /// Explicit schedule. When it runs out, remaining walkers are drained round-robin (so a
    /// shrunk scenario needs no schedule at all).
    #[serde(default)]
    pub schedule: Vec<Step>,
    #[serde(default, skip_serializing_if = "Vec::is_empty")]
    pub triggers: Vec<Trigger>,
    /// Walkers are constructed lazily, at their first scheduled step (so that one walk can be
    /// constructed after another was abandoned), instead of all up front.
    #[serde(default)]
    pub lazy: bool,
}

/// File names that are not valid UTF-8: inside the simulator every path is a `String`; the private
/// use character `U+F800 + b` stands for the raw byte `b` (`0x80..=0xFF`). Only bytes that are never
/// part of a valid sequence (`0xFE`, `0xFF`) are generated, so that each is one invalid sequence of
/// its own and the lossy conversion replaces each by exactly one `U+FFFD`.
pub const BYTE_BASE: u32 = 0xF800;

pub fn to_os(s: &str) -> std::ffi::OsString {
    use std::os::unix::ffi::OsStringExt;
    let mut bytes: Vec<u8> = Vec::with_capacity(s.len());
    let mut buf = [0u8; 4];
    for c in s.chars() {
        let u = c as u32;
        if (BYTE_BASE + 0x80..=BYTE_BASE + 0xFF).contains(&u) {
            bytes.push((u - BYTE_BASE) as u8);
        }
        else {
            bytes.extend_from_slice(c.encode_utf8(&mut buf).as_bytes());
        }
    }
    std::ffi::OsString::from_vec(bytes)
}

pub fn from_os(o: &std::ffi::OsStr) -> String {
    use std::os::unix::ffi::OsStrExt;
    let mut out = String::new();
    for chunk in o.as_bytes().utf8_chunks() {
        out.push_str(chunk.valid());
        for b in chunk.invalid() {
            out.push(char::from_u32(BYTE_BASE + *b as u32).unwrap());
        }
    }
    out
}

/// What `to_string_lossy` makes of a path the simulator spells `s`.
pub fn lossy(s: &str) -> String {
    s.chars()
        .map(|c| if (BYTE_BASE + 0x80..=BYTE_BASE + 0xFF).contains(&(c as u32)) { '\u{FFFD}' } else { c })
        .collect()
}

pub fn join(a: &str, b: &str) -> String {
    if a.is_empty() {
        b.to_string()
    }
    else if b.is_empty() {
        a.to_string()
    }
    else {
        format!("{}/{}", a, b)
    }
}

pub fn parent(p: &str) -> &str {
    match p.rfind('/') {
        Some(i) => &p[..i],
        None => "",
    }
}

pub fn name(p: &str) -> &str {
    match p.rfind('/') {
        Some(i) => &p[i + 1..],
        None => p,
    }
}

pub fn depth_of(p: &str) -> usize {
    if p.is_empty() {
        0
    }
    else {
        p.split('/').count()
    }
}

/// `p` is `q` or beneath `q`.
pub fn is_under(p: &str, q: &str) -> bool {
    q.is_empty() || p == q || (p.len() > q.len() && p.starts_with(q) && p.as_bytes()[q.len()] == b'/')
}

/// `p` is strictly beneath `q`.
pub fn is_below(p: &str, q: &str) -> bool {
    p != q && is_under(p, q)
}

/// Path of `p` relative to ancestor-or-self `q` (both world-relative).
/// A component of a glob expression that is the native `.` or `..`, however it is spelled: a class
/// with one member, a singular alternative and an exact repetition are invariant text just as a
/// literal is, so `[.][.]/x` is `../x`.
pub fn dot_kind(component: &str) -> Option<&'static str> {
    match component {
        "." | "[.]" | "{.}" => Some("."),
        ".." | "[.][.]" | "[.]." | ".[.]" | "<.:2>" | "{..}" | "<[.]:2>" | "{.}." => Some(".."),
        _ => None,
    }
}

pub fn rel_to<'a>(p: &'a str, q: &str) -> &'a str {
    if q.is_empty() {
        p
    }
    else if p == q {
        ""
    }
    else {
        &p[q.len() + 1..]
    }
}

/// `$UP<k>` or `$UP<k>/rest` at the start of a glob expression: (k, rest without the separator).
pub fn up_prefix(expr: &str) -> Option<(usize, &str)> {
    let t = expr.strip_prefix("$UP")?;
    let digits = t.chars().take_while(|c| c.is_ascii_digit()).count();
    if digits == 0 {
        return None;
    }
    let k: usize = t[..digits].parse().ok()?;
    match &t[digits..] {
        "" => Some((k, "")),
        r if r.starts_with('/') => Some((k, &r[1..])),
        _ => None,
    }
}

/// The last `k` components of an absolute path text (all of them if it has fewer).
pub fn last_components(root_text: &str, k: usize) -> Vec<&str> {
    let comps: Vec<&str> = root_text.split('/').filter(|c| !c.is_empty()).collect();
    let k = k.min(comps.len());
    comps[comps.len() - k..].to_vec()
}
