//! C03 — negated walks discard exactly the entries that match the negation.
//! Differential reference: a second execution of the real underlying walk in the same world with
//! the same seams, so a defect in glob walking cannot cause an alarm here.

use crate::env::{Env, HarnessError};
use crate::gen::{Gen, LinkMode, Tier};
use crate::model::Model;
use crate::oracle::*;
use crate::props::common::*;
use crate::rng::Rng;
use crate::scenario::*;

pub fn generate(rng: &mut Rng, tier: Tier, stats: &mut GenStats) -> Scenario {
    let mut g = Gen::new(rng, tier);
    let links = if g.rng.chance(3, 10) { LinkMode::Safe } else { LinkMode::None };
    g.link_base_pct = 25;
    g.foreign_pct = 10;
    let tree = g.tree(links);
    let model = Model::from_tree(&tree).unwrap();
    let cwd = g.pick_dir(&model, 40);
    let has_links = tree.iter().any(|n| matches!(n.kind, Kind::Link { .. }));
    let base = g.pick_base(&model, 45, true);
    let link = if has_links && g.rng.chance(1, 2) { Link::ReadTarget } else { Link::ReadFile };
    let source = underlying_source(&mut g, &model, &base, stats);
    let space_base = match &source {
        Source::Glob { rooted: true, .. } => String::new(),
        _ => base.clone(),
    };
    let pf = g.not_pattern(&model, &space_base, &mut stats.rejections);
    let pf = crate::props::stack::aim_at_rooted(&mut g, &source, pf);
    // depth behaviours: with a minimum depth shallow entries (the root included) are never fed to
    // the negation; the underlying walk of the differential reference runs under the same behaviour
    let deepest = tree.iter().map(|n| depth_of(&n.path)).max().unwrap_or(1);
    let depth = match g.rng.below(15) {
        0 => Depth::Max(g.rng.range(0, deepest + 1)),
        1 => Depth::Min(g.rng.range(1, deepest)),
        2 => Depth::MinMax(g.rng.range(1, deepest), g.rng.range(1, deepest + 1)),
        _ => Depth::Unbounded,
    };
    // A walk root reached through a link of the glob's prefix is followed whatever the policy; the
    // model is then told where the walk starts by the first item fed, which must be the walk root:
    // no minimum depth in that case.
    let depth = match &source {
        Source::Glob { expr, rooted } if link == Link::ReadFile && prefix_touches_link(&model, &base, expr, *rooted) => match depth {
            Depth::Min(_) | Depth::MinMax(..) => Depth::Unbounded,
            d => d,
        },
        _ => depth,
    };
    let walker = Walker {
        source,
        base,
        spelling: g.spelling(),
        link,
        depth,
        order: g.order(false),
        victims: vec![],
        layers: vec![Layer::Not(pf)],
        taps: g.rng.chance(1, 2),
        erased: false,
        form: g.rng.below(8) as u8,
    };
    Scenario {
        prop: "C03".into(),
        seed: 0,
        tree,
        cwd,
        walkers: vec![walker],
        mutations: vec![],
        schedule: vec![],
        triggers: vec![],
        lazy: false,
    }
}

pub fn check(sc: &Scenario, env: &mut Env) -> Result<Outcome, HarnessError> {
    let mut out = Outcome::default();
    let log = run_main(sc, env, &mut out)?;
    panic_clause("C03", sc, &log, &mut out);
    let model = model_of(sc)?;
    // U: the underlying walk alone, same world, same seams
    let mut usc = sc.clone();
    for w in &mut usc.walkers {
        w.layers.clear();
    }
    let ulog = env.run(&usc)?;
    for (wi, w) in sc.walkers.iter().enumerate() {
        let Some(Layer::Not(pf0)) = w.layers.first()
        else {
            continue;
        };
        let pf = &crate::exec::subst_pattern(pf0, &env.root_text);
        let n = View::of(&log, wi, &sc.cwd);
        let u = View::of(&ulog, wi, &sc.cwd);
        if u.panic.is_some() {
            continue;
        }
        // `not` yields exactly those entries of the underlying iterator whose root-relative path
        // does not match the pattern (order preserved).
        let rels: Vec<String> = u.ys.iter().map(|y| lossy(&denorm(&y.rel, &env.root_text))).collect();
        let matches = reference_matches(pf, &rels).map_err(HarnessError)?;
        let wp = |y: &Y| y.wp.clone().unwrap_or_else(|| format!("<outside:{}>", y.path));
        let expected: Vec<String> = u
            .ys
            .iter()
            .zip(&matches)
            .filter(|(_, m)| !**m)
            .map(|(y, _)| wp(y))
            .collect();
        let actual: Vec<String> = n.ys.iter().map(wp).collect();
        if actual != expected {
            let mut a: Vec<String> = actual.iter().map(|s| s.to_string()).collect();
            let mut e: Vec<String> = expected.iter().map(|s| s.to_string()).collect();
            a.sort();
            e.sort();
            let (missing, extra) = diff_sorted(&a, &e);
            let mut items: Vec<String> = missing.iter().map(|m| format!("missing:{}", m)).collect();
            items.extend(extra.iter().map(|m| format!("extra:{}", m)));
            if items.is_empty() {
                items.push("order".to_string());
            }
            out.violate(
                "C03",
                "exact",
                wi,
                format!(
                    "{:?} over {:?} base {:?}: not(p) differs from filtering the underlying walk with !p.is_match(relative path); missing {:?} extra {:?}{}",
                    pf,
                    w.source,
                    w.base,
                    missing,
                    extra,
                    if missing.is_empty() && extra.is_empty() { " (order differs)" } else { "" }
                ),
                items,
            );
        }
        // errors: none beyond those of U
        let ne: Vec<(Option<&str>, &str)> = n.es.iter().map(|e| (e.path.as_deref(), e.kind.as_str())).collect();
        let ue: Vec<(Option<&str>, &str)> = u.es.iter().map(|e| (e.path.as_deref(), e.kind.as_str())).collect();
        if ne != ue {
            out.violate(
                "C03",
                "errors",
                wi,
                format!("error items differ from the underlying walk: {:?} vs {:?}", ne, ue),
                vec!["errors".to_string()],
            );
        }
        // pruning is sound: everything beneath a directory that N did not enter (but U did) matches
        if w.taps {
            let space = Space::of(w, &env.root_text);
            let nfed: Vec<&str> = n.taps.iter().filter(|t| t.pos == 0).filter_map(|t| t.wp.as_deref()).collect();
            let ufed: Vec<&str> = u.taps.iter().filter(|t| t.pos == 0).filter_map(|t| t.wp.as_deref()).collect();
            let lost: Vec<&str> = ufed.iter().copied().filter(|p| !nfed.contains(p)).collect();
            if !lost.is_empty() {
                let rels: Vec<String> = lost.iter().map(|p| root_relative(w, &space, p)).collect();
                let ms = reference_matches(pf, &rels).map_err(HarnessError)?;
                let bad: Vec<String> = lost
                    .iter()
                    .zip(&ms)
                    .filter(|(_, m)| !**m)
                    .map(|(p, _)| format!("unfed:{}", p))
                    .collect();
                if !bad.is_empty() {
                    out.violate(
                        "C03",
                        "prune-sound",
                        wi,
                        format!(
                            "{:?} over {:?}: entries the underlying walk feeds were never read although they do not match the negation: {:?}",
                            pf, w.source, bad
                        ),
                        bad,
                    );
                }
                out.probe("not:pruned-a-tree");
            }
            for p in &nfed {
                if !ufed.contains(p) {
                    out.violate(
                        "C03",
                        "prune-sound",
                        wi,
                        format!("{:?} fed under the negation but not by the underlying walk", p),
                        vec![format!("phantom:{}", p)],
                    );
                }
            }
            // (the walk starts at the first item fed when the prefix of the glob passes through a
            // link, see `generate`; otherwise at or below the start of the space)
            let through_link = matches!(&w.source, Source::Glob { expr, rooted } if w.link == Link::ReadFile && prefix_touches_link(&model, &w.base, expr, *rooted));
            let start = if through_link {
                n.taps.iter().find(|t| t.pos == 0).and_then(|t| t.wp.clone()).unwrap_or_else(|| space.start.clone())
            }
            else {
                space.start.clone()
            };
            let visits = model.traverse(&start, w.link, None);
            partial_clause("C03", "prune-sound", wi, &n, &visits, &mut out);
        }
        let discarded = matches.iter().filter(|m| **m).count();
        if discarded > 0 && discarded < matches.len() {
            out.nontrivial = true;
        }
        walker_probes(w, &mut out);
        out.probe(format!(
            "not-form:{}",
            match pf {
                PatForm::Text(_) => "text",
                PatForm::Glob(_) => "glob",
                PatForm::ResultGlob(_) => "result",
                PatForm::AnyText(_) => "any-text",
                PatForm::AnyGlob(_) => "any-glob",
                PatForm::NestedAny(_) => "nested-any",
            }
        ));
        if pf.texts().iter().any(|t| t.is_empty()) {
            out.probe("not:empty-pattern");
        }
    }
    Ok(out)
}
