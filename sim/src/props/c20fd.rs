//! C20, configuration E — descriptor exhaustion (a failing system call as the fault).
//!
//! The scheduler lowers the descriptor limit of the process between two `next()` calls, or in flight
//! from inside a filter closure, and lifts it again some steps later. While it is in force `opendir`
//! fails with EMFILE for every directory the walk needs one descriptor too many for. Which
//! directories those are is the kernel's and walkdir's business (it depends on how many handles the
//! walk keeps open, i.e. on nesting and on the listing mode); what C20 demands is decided from the
//! history alone: every directory whose entries are missing is named by exactly one error item,
//! every error item names a directory of the tree whose entries are then absent, and everything
//! else is exactly what the fault-free walk yields.

use std::collections::BTreeSet;

use wax::Program;

use crate::env::{Env, HarnessError};
use crate::gen::{Gen, LinkMode};
use crate::model::{Fault, Model};
use crate::oracle::*;
use crate::props::common::*;
use crate::props::stack::*;
use crate::scenario::*;

pub fn is_fd_scenario(sc: &Scenario) -> bool {
    sc.mutations.iter().any(|m| matches!(m.op, MutOp::FdLimit(_) | MutOp::FdRestore))
}

pub fn generate(g: &mut Gen, stats: &mut GenStats) -> Scenario {
    // deep trees matter here: in its streaming mode walkdir holds one descriptor per level
    g.spine_odds = 6;
    let tree = g.tree(LinkMode::None);
    let model = Model::from_tree(&tree).unwrap();
    let cwd = g.pick_dir(&model, 60);
    let nw = if g.rng.chance(1, 4) { 2 } else { 1 };
    let mut walkers = Vec::new();
    for wi in 0..nw {
        let base = g.pick_dir(&model, 70);
        let mut w = Walker {
            source: Source::Path,
            base: base.clone(),
            spelling: g.spelling(),
            link: Link::ReadFile,
            depth: Depth::Unbounded,
            // the native (streaming) order keeps descriptors open along the path; a sorted listing
            // is read at once and closed
            order: if g.rng.chance(1, 2) { Order::Native } else { g.order(false) },
            victims: vec![],
            layers: vec![Layer::Fe(vec![])],
            taps: g.rng.chance(1, 4),
            erased: false,
            form: g.rng.below(8) as u8,
        };
        if g.rng.chance(4, 10) {
            let (e, r) = g.walk_glob(&model, &base, 1, true, &mut stats.rejections);
            w.source = Source::Glob { expr: e, rooted: r };
        }
        if wi == 0 && g.rng.chance(3, 10) {
            let mut table: Vec<(String, Verdict)> = Vec::new();
            for _ in 0..g.rng.range(1, 3) {
                let n = g.rng.pick(&tree);
                if !table.iter().any(|(p, _)| *p == n.path) {
                    table.push((n.path.clone(), if g.rng.chance(2, 3) { Verdict::Tree } else { Verdict::File }));
                }
            }
            w.layers.insert(0, Layer::Fe(table));
        }
        // sometimes a whole stack of negations and entry filters (their discards and the failing
        // opens pull in opposite directions: a directory a layer prunes is never listed, one that
        // could not be opened is reported); negations are judged entry by entry, as C03 has it
        let plain_source = match &w.source {
            Source::Path => true,
            Source::Glob { expr, rooted } => !*rooted && dot_kind(expr.split('/').next().unwrap_or("")).is_none(),
        };
        if wi == 0 && plain_source && g.rng.chance(35, 100) {
            let mut victims = Vec::new();
            let observer = g.rng.chance(2, 3);
            w.layers = layers(g, &model, &w, &StackOpts { max_layers: 3, observer }, stats, &mut victims);
            w.victims = victims;
            w.erased = g.rng.chance(1, 4);
            if g.rng.chance(1, 2) {
                w.order = g.order(true);
            }
        }
        walkers.push(w);
    }
    let mut mutations = Vec::new();
    let mut schedule = Vec::new();
    let mut triggers = Vec::new();
    let pick_w = |g: &mut Gen| if nw == 2 { g.rng.below(2) } else { 0 };
    let windows = g.rng.range(1, 2);
    for _ in 0..windows {
        // some progress first (so that the walk holds descriptors when the limit strikes)
        let lead = match g.rng.below(10) {
            0..=3 => g.rng.range(0, 2),
            4..=7 => g.rng.range(1, 8),
            _ => g.rng.range(0, tree.len() + 2),
        };
        for _ in 0..lead {
            schedule.push(Step::W(pick_w(g)));
        }
        let spare = match g.rng.below(10) {
            0..=4 => 0,
            5..=7 => 1,
            8 => 2,
            _ => g.rng.range(3, 12),
        };
        if g.rng.chance(1, 3) && !tree.is_empty() {
            // in flight: the limit falls while a chosen entry is inside the stack
            triggers.push(Trigger { w: 0, path: g.rng.pick(&tree).path.clone(), mutation: mutations.len() });
        }
        else {
            schedule.push(Step::M(mutations.len()));
        }
        mutations.push(Mutation { path: String::new(), op: MutOp::FdLimit(spare) });
        // the fault lasts for a while, then (usually) heals
        let hold = match g.rng.below(10) {
            0..=4 => g.rng.range(1, 4),
            5..=8 => g.rng.range(2, 12),
            _ => g.rng.range(0, tree.len() + 2),
        };
        for _ in 0..hold {
            schedule.push(Step::W(pick_w(g)));
        }
        if g.rng.chance(8, 10) {
            schedule.push(Step::M(mutations.len()));
            mutations.push(Mutation { path: String::new(), op: MutOp::FdRestore });
        }
    }
    Scenario {
        prop: "C20".into(),
        seed: 0,
        tree,
        cwd,
        walkers,
        mutations,
        schedule,
        triggers,
        lazy: g.rng.chance(1, 6),
    }
}

pub fn check(sc: &Scenario, env: &mut Env) -> Result<Outcome, HarnessError> {
    let mut out = Outcome::default();
    let log = run_main(sc, env, &mut out)?;
    panic_clause("C20", sc, &log, &mut out);
    out.probe("config:descriptor-exhaustion");
    if sc.walkers.len() > 1 {
        out.probe("walkers:two-interleaved-under-descriptor-exhaustion");
    }
    let model = model_of(sc)?;
    let first_limit = log.iter().position(|e| matches!(e, crate::exec::Ev::Mut { i, .. } if matches!(sc.mutations[*i].op, MutOp::FdLimit(_))));
    for ev in &log {
        if let crate::exec::Ev::Mut { result, .. } = ev {
            if result != "ok" {
                return Err(HarnessError(format!("descriptor limit could not be set: {}", result)));
            }
        }
    }
    for (wi, w) in sc.walkers.iter().enumerate() {
        let view = View::of(&log, wi, &sc.cwd);
        if view.panic.is_some() {
            continue;
        }
        let glob = walk_glob(w, &env.root_text);
        let space = Space::of(w, &env.root_text);
        let matches = |p: &str| glob.as_ref().map_or(true, |g| g.is_match(space.rel(p).as_str()));
        let visits = model.traverse(&space.start, w.link, None);
        if visits.iter().any(|v| matches!(v.fault, Some(Fault::RootMissing))) {
            continue;
        }
        // a glob walk whose prefix names something that is not there: one error, whatever the limit
        let root_gone = view.ys.is_empty()
            && view.es.len() == 1
            && matches!(view.es[0].kind.as_str(), "NotFound" | "NotADirectory")
            && !model.is_dir_node(view.es[0].wp.as_deref().unwrap_or("?"));
        if root_gone {
            out.fire("missing-root");
            continue;
        }
        let dirs: BTreeSet<&str> = visits.iter().filter(|v| v.is_dir).map(|v| v.path.as_str()).collect();
        // err-sound: every error names, once, a directory of the tree, after the limit first fell
        let mut failed: BTreeSet<String> = BTreeSet::new();
        for e in &view.es {
            let wp = e.wp.clone().unwrap_or_default();
            let named_dir = e.wp.is_some() && (dirs.contains(wp.as_str()) || model.is_dir_node(&wp));
            if !named_dir {
                out.violate(
                    "C20",
                    "err-sound",
                    wi,
                    format!("descriptor exhaustion: error item {:?} (kind {}) does not name a directory of the tree", e.path, e.kind),
                    vec![format!("error:{}", wp)],
                );
                continue;
            }
            if first_limit.map_or(true, |s| e.seq < s) {
                out.violate(
                    "C20",
                    "err-sound",
                    wi,
                    format!("error item for {:?} (kind {}) before any descriptor limit was in force", wp, e.kind),
                    vec![format!("error:{}", wp)],
                );
            }
            if !failed.insert(wp.clone()) {
                out.violate("C20", "err-sound", wi, format!("two error items for {:?}", wp), vec![format!("dup-error:{}", wp)]);
            }
            if e.cycle {
                out.violate("C20", "err-sound", wi, format!("an exhausted descriptor table reported as a link cycle at {:?}", wp), vec![format!("error:{}", wp)]);
            }
            out.fire(&format!("descriptor-exhaustion:{}", e.kind));
        }
        // verdicts of a real `filter_entry` layer, as the closure was actually asked
        let verdict_of = |p: &str| -> Verdict {
            view.saws.iter().filter(|s| s.wp.as_deref() == Some(p)).map(|s| s.verdict).max().unwrap_or(Verdict::Keep)
        };
        // negations: an entry is discarded exactly if its root-relative path matches (C03); that a
        // matched directory may be pruned as a tree changes nothing, everything beneath it matches too
        let rels: Vec<String> = visits.iter().map(|v| space.rel(&v.path)).collect();
        let mut negated: BTreeSet<&str> = BTreeSet::new();
        for layer in &w.layers {
            if let Layer::Not(pf) = layer {
                let pf = crate::exec::subst_pattern(pf, &env.root_text);
                let ms = reference_matches(&pf, &rels).map_err(HarnessError)?;
                for (v, m) in visits.iter().zip(ms) {
                    if m {
                        negated.insert(v.path.as_str());
                    }
                }
                out.probe("descriptor-exhaustion:under-a-negation");
            }
        }
        let discarded = |p: &str| -> bool {
            if negated.contains(p) {
                return true;
            }
            if verdict_of(p) != Verdict::Keep {
                return true;
            }
            let mut q = p;
            while !q.is_empty() {
                q = parent(q);
                if dirs.contains(q) && verdict_of(q) == Verdict::Tree && is_under(q, &space.start) {
                    return true;
                }
            }
            false
        };
        // ok-exact / carry-on: everything that is not beneath a directory named by an error item
        let lost = |p: &str| failed.iter().any(|d| is_below(p, d));
        let mut expected: Vec<String> = Vec::new();
        let mut base_may = false;
        for v in &visits {
            if lost(&v.path) || discarded(&v.path) {
                continue;
            }
            let m = matches(&v.path);
            if glob.is_some() && v.path == space.start && space.start_is_base {
                base_may = m;
                continue;
            }
            if m {
                expected.push(v.path.clone());
            }
        }
        expected.sort();
        let mut got: Vec<String> = view.ys.iter().map(|y| y.wp.clone().unwrap_or_else(|| format!("<outside:{}>", y.path))).collect();
        got.sort();
        if base_may {
            if let Some(i) = got.iter().position(|p| *p == space.start) {
                got.remove(i);
            }
        }
        if view.dropped {
            continue;
        }
        let (missing, extra) = diff_sorted(&got, &expected);
        if !missing.is_empty() || !extra.is_empty() {
            let swallowed = missing.iter().any(|m| !extra.contains(m));
            let mut items: Vec<String> = missing.iter().map(|m| format!("missing:{}", m)).collect();
            items.extend(extra.iter().map(|m| format!("extra:{}", m)));
            out.violate(
                "C20",
                if swallowed { "carry-on" } else { "ok-exact" },
                wi,
                format!(
                    "descriptor exhaustion {:?} while {:?} walked base {:?}: error items name {:?}; apart from what lies beneath those directories the walk must equal the fault-free walk; missing {:?} extra {:?}",
                    sc.mutations, w.source, w.base, failed, missing, extra
                ),
                items,
            );
        }
        if view.budget || !view.ended {
            out.violate("C20", "carry-on", wi, "the walk did not terminate within the budget under descriptor exhaustion".into(), vec!["no-termination".into()]);
        }
        if !failed.is_empty() {
            out.nontrivial = true;
            out.fire("descriptor-exhaustion-produced-error");
            if failed.contains(&space.start) || failed.iter().any(|d| visits.first().map_or(false, |v| v.path == *d)) {
                out.probe("descriptor-exhaustion:walk-root-failed");
            }
            if failed.len() > 1 {
                out.probe("descriptor-exhaustion:several-directories-failed");
            }
            // the walk went on to yield something after an error
            if let Some(first) = view.es.first() {
                if view.ys.iter().any(|y| y.seq > first.seq) {
                    out.probe("descriptor-exhaustion:entries-yielded-after-the-error");
                }
            }
            if matches!(w.order, Order::Native) {
                out.probe("descriptor-exhaustion:streaming-listing");
            }
        }
        walker_probes(w, &mut out);
    }
    for t in &sc.triggers {
        if log.iter().any(|e| matches!(e, crate::exec::Ev::Mut { i, .. } if *i == t.mutation)) {
            out.probe("descriptor-exhaustion:limit-fell-in-flight-from-a-filter-closure");
        }
    }
    Ok(out)
}
