//! Shared machinery of the stack profiles (C13, C16, C20 pass-through): generation of combinator
//! stacks and the differential reference built from a second execution of the real underlying
//! walk ("U") in the same world with the same seams.

use std::collections::{BTreeMap, BTreeSet};

use crate::env::{Env, HarnessError};
use crate::exec::Ev;
use crate::gen::Gen;
use crate::model::Model;
use crate::oracle::*;
use crate::props::common::*;
use crate::scenario::*;

// ---------------------------------------------------------------------------------- generation

/// `true` if some alternative of the negation claims `is_exhaustive() == Always` and the generated
/// tree falsifies the claim (a matched directory with an unmatched descendant). That is known
/// finding F6 (decided under C03); the stack profiles do not sample it.
pub fn falsified_always(pf: &PatForm, model: &Model, w_space: &Space, link: Link) -> bool {
    use wax::Program;
    let pf = &crate::exec::subst_pattern(pf, DUMMY_ROOT);
    let globs: Vec<wax::Glob> = pf
        .texts()
        .iter()
        .flat_map(|t| flatten_alternatives(t))
        .filter_map(|t| crate::exec::guarded(|| wax::Glob::new(&t).ok().map(|g| g.into_owned())).ok().flatten())
        .filter(|g| matches!(g.is_exhaustive(), wax::query::When::Always))
        .collect();
    if globs.is_empty() {
        return false;
    }
    let visits = model.traverse(&w_space.start, link, None);
    for t in &globs {
        for d in visits.iter().filter(|v| v.is_dir) {
            if !t.is_match(w_space.rel(&d.path).as_str()) {
                continue;
            }
            for e in visits.iter().filter(|v| is_below(&v.path, &d.path)) {
                if !t.is_match(w_space.rel(&e.path).as_str()) {
                    return true;
                }
            }
        }
    }
    false
}

pub struct StackOpts {
    pub max_layers: usize,
    pub observer: bool,
}

/// Layers over the walk described by (`source`, `base`, `link`): 1..=max `not` / `filter_entry`
/// layers, verdicts steered onto directories that have children and later siblings.
pub fn layers(
    g: &mut Gen,
    model: &Model,
    w: &Walker,
    opts: &StackOpts,
    stats: &mut GenStats,
    victims: &mut Vec<String>,
) -> Vec<Layer> {
    let space = Space::of(w, DUMMY_ROOT);
    let visits = model.traverse(&space.start, w.link, None);
    let n = if opts.max_layers > 4 {
        // deep stacks (type-erased builds only)
        g.rng.range(5, opts.max_layers)
    }
    else {
        match g.rng.below(10) {
            0..=2 => 1,
            3..=6 => 2,
            7..=8 => 3.min(opts.max_layers),
            _ => opts.max_layers,
        }
        .min(opts.max_layers)
        .max(1)
    };
    // candidate victims: directories with children first
    let dirs: Vec<&str> = visits
        .iter()
        .filter(|v| v.is_dir && visits.iter().any(|c| c.path != v.path && parent(&c.path) == v.path) && v.path != space.start)
        .map(|v| v.path.as_str())
        .collect();
    let all: Vec<&str> = visits.iter().map(|v| v.path.as_str()).collect();
    let mut hot: Vec<String> = Vec::new();
    let mut out = Vec::new();
    for _ in 0..n {
        if g.rng.chance(35, 100) {
            let mut pf = PatForm::Text("**/zz".to_string());
            for _ in 0..6 {
                let cand = g.not_pattern(model, &space.start, &mut stats.rejections);
                let cand = aim_at_rooted(g, &w.source, cand);
                if !falsified_always(&cand, model, &Space::of(w, DUMMY_ROOT), w.link) {
                    pf = cand;
                    break;
                }
                stats.restricted += 1;
            }
            out.push(Layer::Not(pf));
        }
        else {
            let k = g.rng.range(1, 3);
            let mut table: Vec<(String, Verdict)> = Vec::new();
            for _ in 0..k {
                let p: String = if !hot.is_empty() && g.rng.chance(1, 2) {
                    g.rng.pick(&hot).clone()
                }
                else if !dirs.is_empty() && g.rng.chance(7, 10) {
                    g.rng.pick(&dirs).to_string()
                }
                else if !all.is_empty() {
                    g.rng.pick(&all).to_string()
                }
                else {
                    continue;
                };
                let v = match g.rng.below(20) {
                    0..=10 => Verdict::Tree,
                    11..=17 => Verdict::File,
                    _ => Verdict::Keep,
                };
                if !table.iter().any(|(q, _)| *q == p) {
                    if !hot.contains(&p) {
                        hot.push(p.clone());
                    }
                    table.push((p, v));
                }
            }
            out.push(Layer::Fe(table));
        }
    }
    if opts.observer {
        out.push(Layer::Fe(vec![]));
    }
    *victims = hot;
    out
}

/// For a rooted glob walk the root-relative path of an entry is its whole absolute path, which no
/// relative negation can match: aim the negation either by rooting it at the world root (`$R/...`,
/// keeps a bounded depth bounded) or by prefixing a tree wildcard.
pub fn aim_at_rooted(g: &mut Gen, source: &Source, pf: PatForm) -> PatForm {
    if !matches!(source, Source::Glob { rooted: true, .. }) {
        return pf;
    }
    let aimed = if g.rng.chance(6, 10) {
        pf.map_texts(&mut |t: &str| if t.is_empty() { R.to_string() } else { format!("{}/{}", R, t) })
    }
    else {
        root_prefix_not(&pf)
    };
    let probe = crate::exec::subst_pattern(&aimed, DUMMY_ROOT);
    if matches!(crate::exec::guarded(|| reference_pattern(&probe).is_ok()), Ok(true)) {
        aimed
    }
    else {
        pf
    }
}

/// For a rooted glob walk the root-relative path of an entry is its whole absolute path, which no
/// relative negation can usefully match; aim the negation by prefixing a tree wildcard.
fn root_prefix_not(pf: &PatForm) -> PatForm {
    pf.map_texts(&mut |t: &str| {
        if t.is_empty() || t.starts_with("**") || t.starts_with('<') || t.starts_with('{') {
            t.to_string()
        }
        else {
            format!("**/{}", t)
        }
    })
}

// ---------------------------------------------------------------------------------- reference

#[derive(Clone, Debug)]
pub struct UEntry {
    pub wp: String,
    pub is_dir: bool,
    /// root-relative candidate text
    pub rel: String,
    pub yielded: bool,
}

/// The feed of the underlying walk: every `Ok` entry it feeds (filtrate and residue), in order.
pub struct UFeed {
    pub entries: Vec<UEntry>,
    pub index: BTreeMap<String, usize>,
    /// yielded world paths in order
    pub yields: Vec<String>,
    /// error items (path text, kind, depth, cycle, display) in order, with their position among
    /// all items of U
    pub errors: Vec<E>,
    pub log: Vec<Ev>,
}

/// Scenario of the underlying walk alone, observed by one pass-through closure.
pub fn underlying(sc: &Scenario) -> Scenario {
    let mut u = sc.clone();
    for w in &mut u.walkers {
        w.layers = vec![Layer::Fe(vec![])];
    }
    // the reference execution sees the world as it was built
    u.mutations.clear();
    u.triggers.clear();
    u.schedule.retain(|s| !matches!(s, Step::M(_)));
    u
}

pub fn run_underlying(sc: &Scenario, env: &mut Env, wi: usize) -> Result<UFeed, HarnessError> {
    let usc = underlying(sc);
    let log = env.run(&usc)?;
    let v = View::of(&log, wi, &sc.cwd);
    let w = &sc.walkers[wi];
    let space = Space::of(w, &env.root_text);
    let mut entries = Vec::new();
    let mut index = BTreeMap::new();
    let ys: BTreeSet<String> = v.ys.iter().filter_map(|y| y.wp.clone()).collect();
    for s in v.saws.iter().filter(|s| s.layer == 0) {
        let wp = s.wp.clone().unwrap_or_else(|| format!("<outside:{}>", s.path));
        index.entry(wp.clone()).or_insert(entries.len());
        entries.push(UEntry {
            rel: root_relative(w, &space, &wp),
            is_dir: s.ft == 'd',
            yielded: ys.contains(&wp),
            wp,
        });
    }
    Ok(UFeed {
        entries,
        index,
        yields: v.ys.iter().map(|y| y.wp.clone().unwrap_or_default()).collect(),
        errors: v.es.clone(),
        log,
    })
}

#[derive(Clone, Copy, Debug, PartialEq, Eq)]
pub enum LV {
    Keep,
    /// discarded as a single file by `filter_entry`
    Node,
    /// discarded as a tree by `filter_entry`
    Tree,
    /// matched by an alternative of a `not` that reports `is_exhaustive() == Always`: the
    /// documentation promises that the tree is not read ("it matches an exhaustive negation")
    NotTree,
    /// matched by a `not` whose pattern also matches everything U feeds beneath (pruning allowed)
    NotMay,
    /// matched by a `not`, but something beneath does not match (pruning would lose it)
    NotNode,
}

pub struct Expect {
    /// verdict of layer i for entry j
    pub lv: Vec<Vec<LV>>,
    /// entries (indices into U) that MUST NOT be fed to anything: beneath a tree discarded by a
    /// `filter_entry` layer
    pub dead_below: BTreeSet<usize>,
    /// entries that MAY be missing: beneath a directory a `not` may prune
    pub may_below: BTreeSet<usize>,
    /// expected yields, in U's order
    pub yields: Vec<String>,
    pub nontrivial: bool,
}

/// Evaluates the layer stack over U's feed. Verdicts are functions of the entry's path only, so
/// the result is invariant under permutation of the layers by construction.
pub fn expect(layers: &[Layer], u: &UFeed, root_text: &str) -> Result<Expect, HarnessError> {
    let n = u.entries.len();
    let rels: Vec<String> = u.entries.iter().map(|e| e.rel.clone()).collect();
    let below = |j: usize, d: usize| is_below(&u.entries[j].wp, &u.entries[d].wp);
    let mut lv: Vec<Vec<LV>> = Vec::new();
    for layer in layers {
        match layer {
            Layer::Fe(table) => lv.push(
                u.entries
                    .iter()
                    .map(|e| match table.iter().find(|(p, _)| *p == e.wp).map(|(_, v)| *v) {
                        Some(Verdict::Tree) => LV::Tree,
                        Some(Verdict::File) => LV::Node,
                        _ => LV::Keep,
                    })
                    .collect(),
            ),
            Layer::Not(pf) => {
                let pf = &crate::exec::subst_pattern(pf, root_text);
                let ms = reference_matches(pf, &rels).map_err(HarnessError)?;
                // alternatives that claim to be always exhaustive (public query)
                // (alternatives: the members of `any` and, for a member that is wholly an
                // alternation, its branches)
                let always: Vec<wax::Glob> = pf
                    .texts()
                    .iter()
                    .flat_map(|t| flatten_alternatives(t))
                    .filter_map(|t| wax::Glob::new(&t).ok().map(|g| g.into_owned()))
                    .filter(|g| matches!(wax::Program::is_exhaustive(g), wax::query::When::Always))
                    .collect();
                let mut col = Vec::with_capacity(n);
                for j in 0..n {
                    if !ms[j] {
                        col.push(LV::Keep);
                    }
                    else if always.iter().any(|g| wax::Program::is_match(g, rels[j].as_str()))
                        && (0..n).all(|k| !below(k, j) || ms[k])
                    {
                        col.push(LV::NotTree);
                    }
                    else if (0..n).all(|k| !below(k, j) || ms[k]) {
                        col.push(LV::NotMay);
                    }
                    else {
                        col.push(LV::NotNode);
                    }
                }
                lv.push(col);
            },
        }
    }
    let mut dead_below = BTreeSet::new();
    let mut may_below = BTreeSet::new();
    let mut nontrivial = false;
    for d in 0..n {
        if !u.entries[d].is_dir {
            continue;
        }
        let dead = lv.iter().any(|col| col[d] == LV::Tree || col[d] == LV::NotTree);
        let may = lv.iter().any(|col| col[d] == LV::NotMay);
        if dead || may {
            let mut any_child = false;
            for j in 0..n {
                if below(j, d) {
                    any_child = true;
                    if dead {
                        dead_below.insert(j);
                    }
                    else {
                        may_below.insert(j);
                    }
                }
            }
            // a tree discard of a directory that has children and a later sibling
            let later_sibling = (d + 1..n).any(|j| {
                !below(j, d) && parent(&u.entries[j].wp) == parent(&u.entries[d].wp) && u.entries[j].wp != u.entries[d].wp
            });
            if dead && any_child && later_sibling {
                nontrivial = true;
            }
        }
    }
    let yields = (0..n)
        .filter(|j| u.entries[*j].yielded)
        .filter(|j| lv.iter().all(|col| col[*j] == LV::Keep))
        .filter(|j| !dead_below.contains(j))
        .map(|j| u.entries[j].wp.clone())
        .collect();
    // order: U's yield order
    let order: BTreeMap<&str, usize> = u.yields.iter().enumerate().map(|(i, p)| (p.as_str(), i)).collect();
    let mut yields: Vec<String> = yields;
    yields.sort_by_key(|p| order.get(p.as_str()).copied().unwrap_or(usize::MAX));
    Ok(Expect {
        lv,
        dead_below,
        may_below,
        yields,
        nontrivial,
    })
}

/// What one observer (a `filter_entry` closure at `layer`, or the consumer) saw, as world paths.
pub fn saw_paths(view: &View, layer: usize) -> Vec<String> {
    view.saws
        .iter()
        .filter(|s| s.layer == layer)
        .map(|s| s.wp.clone().unwrap_or_else(|| format!("<outside:{}>", s.path)))
        .collect()
}

/// Feed clauses judged on what an observer saw: leak / skip (incl. partial) / once.
/// Returns (leaks, skipped, duplicates, phantoms).
pub fn judge_feed(seen: &[String], u: &UFeed, ex: &Expect) -> (Vec<String>, Vec<String>, Vec<String>, Vec<String>) {
    let mut count: BTreeMap<&str, usize> = BTreeMap::new();
    for p in seen {
        *count.entry(p.as_str()).or_insert(0) += 1;
    }
    let mut leaks = Vec::new();
    let mut skipped = Vec::new();
    let mut dups = Vec::new();
    let mut phantoms = Vec::new();
    for (p, c) in &count {
        if *c > 1 {
            dups.push(format!("dup:{}", p));
        }
        match u.index.get(*p) {
            None => phantoms.push(format!("phantom:{}", p)),
            Some(j) => {
                if ex.dead_below.contains(j) {
                    leaks.push(format!("leak:{}", p));
                }
            },
        }
    }
    for (j, e) in u.entries.iter().enumerate() {
        if u.index.get(&e.wp) != Some(&j) {
            continue; // duplicate in U itself (judged elsewhere)
        }
        let seen_it = count.contains_key(e.wp.as_str());
        if !seen_it && !ex.dead_below.contains(&j) && !ex.may_below.contains(&j) {
            skipped.push(format!("unfed:{}", e.wp));
        }
    }
    // all-or-nothing below directories a `not` may prune
    for (d, de) in u.entries.iter().enumerate() {
        if !de.is_dir || ex.dead_below.contains(&d) {
            continue;
        }
        let kids: Vec<usize> = (0..u.entries.len())
            .filter(|j| parent(&u.entries[*j].wp) == de.wp && u.entries[*j].wp != de.wp)
            .collect();
        let fed = kids.iter().filter(|j| count.contains_key(u.entries[**j].wp.as_str())).count();
        if fed > 0 && fed < kids.len() {
            for j in kids {
                if !count.contains_key(u.entries[j].wp.as_str()) && ex.may_below.contains(&j) {
                    skipped.push(format!("unfed:{}", u.entries[j].wp));
                }
            }
        }
    }
    skipped.sort();
    skipped.dedup();
    (leaks, skipped, dups, phantoms)
}

/// Probes about where discards were issued (reach measurement).
pub fn discard_probes(layers: &[Layer], u: &UFeed, ex: &Expect, out: &mut Outcome) {
    let n = u.entries.len();
    for d in 0..n {
        let e = &u.entries[d];
        let trees = ex.lv.iter().filter(|col| col[d] == LV::Tree || col[d] == LV::NotTree).count();
        let nodes = ex.lv.iter().filter(|col| col[d] == LV::Node).count();
        if trees == 0 && nodes == 0 {
            continue;
        }
        let sibs: Vec<usize> = (0..n)
            .filter(|j| parent(&u.entries[*j].wp) == parent(&e.wp) && !u.entries[*j].wp.is_empty())
            .collect();
        let pos = sibs.iter().position(|j| *j == d).unwrap_or(0);
        let where_ = if sibs.len() <= 1 {
            "only"
        }
        else if pos == 0 {
            "first"
        }
        else if pos + 1 == sibs.len() {
            "last"
        }
        else {
            "middle"
        };
        let has_kids = (0..n).any(|j| is_below(&u.entries[j].wp, &e.wp));
        if trees > 0 {
            if e.is_dir {
                out.probe(format!("tree-discard:dir:{}:{}", where_, if has_kids { "children" } else { "empty" }));
            }
            else {
                out.probe(format!("tree-discard:non-dir:{}", where_));
            }
            if trees >= 2 && e.is_dir {
                out.probe("tree-discard:twice-or-more-on-one-directory");
            }
        }
        if trees > 0 && nodes > 0 {
            let first_tree = ex.lv.iter().position(|col| col[d] == LV::Tree || col[d] == LV::NotTree).unwrap();
            let first_node = ex.lv.iter().position(|col| col[d] == LV::Node).unwrap();
            out.probe(if first_node < first_tree { "file-then-tree" } else { "tree-then-file" });
        }
        if nodes > 0 && trees == 0 && e.is_dir && has_kids {
            out.probe("dir-discarded-as-file-and-entered");
        }
    }
    if ex.lv.iter().flatten().any(|v| *v == LV::NotMay) {
        out.probe("not:exhaustive-match-possible");
    }
    if ex.lv.iter().flatten().any(|v| *v == LV::NotTree) {
        out.probe("not:always-exhaustive-alternative-matched");
    }
    if ex.lv.iter().flatten().any(|v| *v == LV::NotNode) {
        out.probe("not:non-exhaustive-match-of-directory");
    }
    out.probe(format!("stack-depth:{}", layers.len()));
    // a discard issued below ten open directory handles (walkdir switches representation there)
    for (d, e) in u.entries.iter().enumerate() {
        if depth_of(&e.wp) > 10 && ex.lv.iter().any(|col| col[d] != LV::Keep) {
            out.probe("walkdir:discard-beyond-handle-limit");
            break;
        }
    }
}
