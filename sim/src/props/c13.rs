//! C13 — discarded directory trees are never read, and only they are skipped.

use crate::env::{Env, HarnessError};
use crate::gen::{Gen, LinkMode, Tier};
use crate::model::Model;
use crate::oracle::*;
use crate::props::common::*;
use crate::props::stack::*;
use crate::rng::Rng;
use crate::scenario::*;

fn stack_walker(g: &mut Gen, model: &Model, tree: &[Node], has_links: bool, stats: &mut GenStats, max_layers: usize) -> Walker {
    let base = g.pick_base(model, 55, true);
    let link = if has_links && g.rng.chance(1, 2) { Link::ReadTarget } else { Link::ReadFile };
    let source = underlying_source(g, model, &base, stats);
    let mut w = Walker {
        source,
        base,
        spelling: g.spelling(),
        link,
        depth: Depth::Unbounded,
        order: Order::Lex,
        victims: vec![],
        layers: vec![],
        taps: g.rng.chance(1, 2),
        erased: false,
        form: g.rng.below(8) as u8,
    };
    // a third of the stacks are built with type erasure between the layers (H3); a third of those
    // are deeper than the statically composed type allows (5 to 10 layers plus the observer)
    w.erased = g.rng.chance(1, 3);
    let max_layers = if w.erased && g.rng.chance(1, 3) { 10 } else { max_layers };
    let observer = !g.rng.chance(3, 10);
    if !observer && g.rng.chance(2, 3) {
        // (a feed tap on top would itself be the outermost combinator)
        w.taps = false;
    }
    let mut victims = Vec::new();
    w.layers = layers(
        g,
        model,
        &w,
        &StackOpts {
            max_layers,
            // Usually a pass-through observer is placed last, as the property suggests. In three
            // runs of ten it is left out, so that the last *real* combinator is the outermost one
            // and is driven through `Iterator::next` by the consumer rather than through `feed` by
            // a combinator above it (the two are different code paths in every combinator); what
            // the layers beneath it are shown is then the evidence.
            observer,
        },
        stats,
        &mut victims,
    );
    w.victims = victims;
    w.order = g.order(true);
    // depth behaviours: the differential reference runs under the same behaviour, so directories
    // at the maximum depth (never entered) and entries above the minimum (never fed) are handled
    // by construction
    if g.rng.chance(1, 5) {
        let deepest = tree.iter().map(|n| depth_of(&n.path)).max().unwrap_or(1);
        w.depth = match g.rng.below(3) {
            0 => Depth::Max(g.rng.range(1, deepest + 1)),
            1 => Depth::Min(g.rng.range(1, deepest)),
            _ => Depth::MinMax(g.rng.range(1, deepest), g.rng.range(1, deepest + 1)),
        };
    }
    w
}

pub fn gen_stack_scenario(rng: &mut Rng, tier: Tier, stats: &mut GenStats, prop: &str, max_layers: usize, max_walkers: usize) -> Scenario {
    let mut g = Gen::new(rng, tier);
    g.spine_odds = 15;
    g.link_base_pct = 20;
    // Mostly fault-free; in a fifth of the runs the tree also carries faults (bad links, restricted
    // directories), because "what was yielded just before" includes error items. The differential
    // reference sees the same faults, so no clause changes.
    let links = match g.rng.below(20) {
        0..=12 => LinkMode::None,
        13..=16 => LinkMode::Safe,
        _ => LinkMode::All,
    };
    g.foreign_pct = 10;
    let mut tree = g.tree(links);
    let model0 = Model::from_tree(&tree).unwrap();
    let cwd = g.pick_dir(&model0, 50);
    if g.rng.chance(1, 10) {
        // bases are drawn later from directories that are still plain
        crate::props::c20::plant_modes(&mut g, &mut tree, &[cwd.clone()]);
    }
    let model = Model::from_tree(&tree).unwrap();
    let has_links = tree.iter().any(|n| matches!(n.kind, Kind::Link { .. }));
    // Stacks must not share hidden state: sometimes two independent stacks are advanced alternately.
    let nw = if max_walkers > 1 && g.rng.chance(1, 8) { 2 } else { 1 };
    let walkers: Vec<Walker> = (0..nw).map(|_| stack_walker(&mut g, &model, &tree, has_links, stats, max_layers)).collect();
    let mut walkers = walkers;
    let schedule = interleaving(g.rng, nw, tree.len());
    // In flight, rarely (C13 only): a plain file that a `filter_entry` closure discards *as a tree*
    // becomes a directory with children while the closure is looking at it. What was listed as a
    // file is not a directory tree: discarding it must not cancel anything, whatever the file
    // system says by then ("discarding a non-directory never causes a sibling to be skipped").
    // The reference execution runs in the world as built, where the entry is a file.
    let mut mutations = Vec::new();
    let mut triggers = Vec::new();
    // (one walker only: a second walk would rightly find the new directory)
    if prop == "C13" && nw == 1 && !has_links && tree.iter().all(|n| n.mode.is_none()) && g.rng.chance(1, 7) {
        let wi = g.rng.below(nw);
        let w = &mut walkers[wi];
        let files: Vec<String> = tree
            .iter()
            .filter(|n| n.kind == Kind::File && is_below(&n.path, &w.base))
            .map(|n| n.path.clone())
            .collect();
        let discarded: Vec<String> = w
            .layers
            .iter()
            .filter_map(|l| if let Layer::Fe(t) = l { Some(t) } else { None })
            .flat_map(|t| t.iter().filter(|(p, v)| *v == Verdict::Tree && files.contains(p)).map(|(p, _)| p.clone()))
            .collect();
        let target = if !discarded.is_empty() {
            Some(g.rng.pick(&discarded).clone())
        }
        else if !files.is_empty() {
            let f = g.rng.pick(&files).clone();
            match w.layers.iter_mut().find_map(|l| match l {
                Layer::Fe(t) if !t.is_empty() && !t.iter().any(|(p, _)| *p == f) => Some(t),
                _ => None,
            }) {
                Some(t) => {
                    t.push((f.clone(), Verdict::Tree));
                    Some(f)
                },
                None => None,
            }
        }
        else {
            None
        };
        if let Some(f) = target {
            mutations.push(Mutation { path: f.clone(), op: MutOp::ToDir(g.rng.range(1, 3)) });
            // the strike comes while the closure looks at the file itself, or earlier: while it
            // looks at the directory that lists it (whose listing has been read by then)
            let at = if g.rng.chance(1, 2) { f } else { parent(&f).to_string() };
            triggers.push(Trigger { w: wi, path: at, mutation: 0 });
        }
    }
    Scenario {
        prop: prop.into(),
        seed: 0,
        tree,
        cwd,
        walkers,
        mutations,
        schedule,
        triggers,
        lazy: false,
    }
}

pub fn generate(rng: &mut Rng, tier: Tier, stats: &mut GenStats) -> Scenario {
    gen_stack_scenario(rng, tier, stats, "C13", 4, 2)
}

pub fn check(sc: &Scenario, env: &mut Env) -> Result<Outcome, HarnessError> {
    let mut out = Outcome::default();
    let log = run_main(sc, env, &mut out)?;
    panic_clause("C13", sc, &log, &mut out);
    for (wi, w) in sc.walkers.iter().enumerate() {
        let s = View::of(&log, wi, &sc.cwd);
        if s.panic.is_some() {
            continue;
        }
        let u = run_underlying(sc, env, wi)?;
        let ex = expect(&w.layers, &u, &env.root_text)?;
        // every observer: each filter_entry closure, the pass-through placed last, and (with
        // taps) the closure-free taps above every layer
        let mut observers: Vec<(String, Vec<String>)> = Vec::new();
        for (li, layer) in w.layers.iter().enumerate() {
            if matches!(layer, Layer::Fe(_)) {
                observers.push((format!("filter_entry closure of layer {}", li), saw_paths(&s, li)));
            }
        }
        if w.taps {
            for pos in 0..=w.layers.len() {
                let seen: Vec<String> = s
                    .taps
                    .iter()
                    .filter(|t| t.pos == pos && t.class != 'E')
                    .map(|t| t.wp.clone().unwrap_or_default())
                    .collect();
                observers.push((format!("tap {}", pos), seen));
            }
        }
        // the consumer
        observers.push(("consumer".to_string(), s.ys.iter().map(|y| y.wp.clone().unwrap_or_default()).collect()));
        for (who, seen) in &observers {
            let consumer = who == "consumer";
            let (leaks, skipped, dups, phantoms) = judge_feed(seen, &u, &ex);
            if !leaks.is_empty() {
                out.violate(
                    "C13",
                    "leak",
                    wi,
                    format!("{} was given entries beneath a directory that a filter discarded as a tree: {:?}", who, leaks),
                    leaks,
                );
            }
            if !consumer && !skipped.is_empty() {
                out.violate(
                    "C13",
                    "skip",
                    wi,
                    format!(
                        "{} never saw entries that are not beneath any discarded tree (a sibling or descendant was skipped): {:?}",
                        who, skipped
                    ),
                    skipped,
                );
            }
            if !dups.is_empty() || !phantoms.is_empty() {
                let mut items = dups.clone();
                items.extend(phantoms.clone());
                out.violate("C13", "once", wi, format!("{} saw {:?}", who, items), items);
            }
        }
        // "because a glob's component cannot match it": a directory whose own name fails the glob
        // component at its position can contain no match and is discarded as a tree by the glob
        // walk itself; nothing beneath it may reach any downstream observer (judged on the feed of
        // the underlying walk, which every layer above inherits).
        if let Source::Glob { expr, rooted: false } = &w.source {
            let comps = crate::oracle::leading_components(expr);
            if !comps.is_empty() && !expr.starts_with('.') {
                use wax::Program;
                let hopeless: Vec<&str> = u
                    .entries
                    .iter()
                    .filter(|e| e.is_dir && is_below(&e.wp, &w.base))
                    .filter(|e| {
                        let names: Vec<&str> = rel_to(&e.wp, &w.base).split('/').collect();
                        let j = names.len();
                        j <= comps.len() && !comps[j - 1].is_match(lossy(names[j - 1]).as_str())
                    })
                    .map(|e| e.wp.as_str())
                    .collect();
                let mut leaks: Vec<String> = u
                    .entries
                    .iter()
                    .filter(|e| hopeless.iter().any(|h| is_below(&e.wp, h)))
                    .map(|e| format!("leak:{}", e.wp))
                    .collect();
                leaks.extend(
                    u.errors
                        .iter()
                        .filter_map(|e| e.wp.clone())
                        .filter(|p| hopeless.iter().any(|h| is_below(p, h)))
                        .map(|p| format!("leak-error:{}", p)),
                );
                if !hopeless.is_empty() {
                    out.probe("glob:component-cannot-match-directory");
                }
                if !leaks.is_empty() {
                    out.violate(
                        "C13",
                        "leak",
                        wi,
                        format!(
                            "glob {:?}: directories {:?} cannot match their component, yet entries beneath them were produced downstream: {:?}",
                            expr, hopeless, leaks
                        ),
                        leaks,
                    );
                }
            }
        }
        // "... and only they are skipped": a directory the glob walk feeds and that contains a match
        // (by the model of the tree, fault-free scenarios only) is not a tree the glob may discard:
        // its children must be fed by the underlying walk.
        if let Some(glob) = walk_glob(w, &env.root_text) {
            use wax::Program;
            let space = Space::of(w, &env.root_text);
            let model = model_of(sc)?;
            let shift = crate::exec::depth_shift(w, &env.root_text);
            let (_, max) = w.depth.shifted(shift).window();
            let visits = model.traverse(&space.start, w.link, None);
            if visits.iter().all(|v| v.fault.is_none()) {
                let depth_of_rel = |p: &str| std::path::Path::new(&space.rel(p)).components().count();
                let mut skipped: Vec<String> = Vec::new();
                for d in u.entries.iter().filter(|e| e.is_dir) {
                    if max.map_or(false, |m| depth_of_rel(&d.wp) >= m) {
                        continue;
                    }
                    let has_match = visits.iter().any(|v| {
                        is_below(&v.path, &d.wp)
                            && max.map_or(true, |m| depth_of_rel(&v.path) <= m)
                            && glob.is_match(space.rel(&v.path).as_str())
                    });
                    if !has_match {
                        continue;
                    }
                    for k in visits.iter().filter(|v| parent(&v.path) == d.wp && v.path != d.wp) {
                        if !u.index.contains_key(&k.path) {
                            skipped.push(format!("unfed:{}", k.path));
                        }
                    }
                }
                if !skipped.is_empty() {
                    skipped.sort();
                    skipped.dedup();
                    out.violate(
                        "C13",
                        "skip",
                        wi,
                        format!(
                            "glob {:?}: directories that contain a match were skipped by the glob walk itself (entries never fed): {:?}",
                            w.source, skipped
                        ),
                        skipped,
                    );
                }
                // "... and only they are skipped", seen from below the stack: a directory that the
                // glob walk itself *keeps* (feeds as a match, not as residue) is not a discarded
                // tree, so every entry in it is produced to the filters downstream — as a match or
                // as residue, which the tap above the glob walk sees either way.
                // (judged on the reference execution, where no layer above discards anything)
                if w.taps {
                    let uv = View::of(&u.log, wi, &sc.cwd);
                    let fed0: std::collections::BTreeSet<&str> =
                        uv.taps.iter().filter(|t| t.pos == 0).filter_map(|t| t.wp.as_deref()).collect();
                    let mut unfed: Vec<String> = Vec::new();
                    for t in uv.taps.iter().filter(|t| t.pos == 0 && t.class == 'F') {
                        let Some(d) = t.wp.as_deref()
                        else {
                            continue;
                        };
                        if !visits.iter().any(|v| v.path == d && v.is_dir) || max.map_or(false, |m| depth_of_rel(d) >= m) {
                            continue;
                        }
                        for k in visits.iter().filter(|v| parent(&v.path) == d && v.path != d) {
                            if !fed0.contains(k.path.as_str()) {
                                unfed.push(format!("unfed:{}", k.path));
                            }
                        }
                        out.probe("glob:kept-directory-must-be-listed");
                    }
                    // (a walker dropped or out of budget before its end proves nothing)
                    let ended = u.log.iter().any(|e| matches!(e, crate::exec::Ev::End { w } if *w == wi));
                    if !unfed.is_empty() && ended {
                        unfed.sort();
                        unfed.dedup();
                        out.violate(
                            "C13",
                            "skip",
                            wi,
                            format!(
                                "glob {:?}: the glob walk kept these directories (fed them as matches) yet never produced their entries downstream, although nothing discarded them: {:?}",
                                w.source, unfed
                            ),
                            unfed,
                        );
                    }
                }
            }
        }
        if ex.nontrivial {
            out.nontrivial = true;
        }
        walker_probes(w, &mut out);
        if sc.triggers.iter().any(|t| t.w == wi) && log.iter().any(|e| matches!(e, crate::exec::Ev::Mut { .. })) {
            out.probe("in-flight:file-discarded-as-tree-became-a-directory");
        }
        discard_probes(&w.layers, &u, &ex, &mut out);
    }
    Ok(out)
}
