//! C16 — walk filters compose monotonically and independently of order.
//! Each scenario is executed for several permutations of the same layer multiset, in the same
//! world with the same seams. Verdict tables and patterns are functions of the entry's path only,
//! so the expected result is permutation-invariant by construction.

use std::collections::BTreeSet;

use crate::env::{Env, HarnessError};
use crate::gen::Tier;
use crate::oracle::*;
use crate::props::c13::gen_stack_scenario;
use crate::props::common::*;
use crate::props::stack::*;
use crate::rng::Rng;
use crate::scenario::*;

pub fn generate(rng: &mut Rng, tier: Tier, stats: &mut GenStats) -> Scenario {
    gen_stack_scenario(rng, tier, stats, "C16", 4, 1)
}

/// Deterministic selection of permutations (the PRNG is never consulted while judging): all of
/// them up to three layers, otherwise identity, reversal, rotations and adjacent swaps.
pub fn permutations(k: usize) -> Vec<Vec<usize>> {
    let id: Vec<usize> = (0..k).collect();
    let mut out: Vec<Vec<usize>> = vec![id.clone()];
    if k <= 3 {
        fn rec(cur: &mut Vec<usize>, used: &mut Vec<bool>, k: usize, out: &mut Vec<Vec<usize>>) {
            if cur.len() == k {
                out.push(cur.clone());
                return;
            }
            for i in 0..k {
                if !used[i] {
                    used[i] = true;
                    cur.push(i);
                    rec(cur, used, k, out);
                    cur.pop();
                    used[i] = false;
                }
            }
        }
        rec(&mut vec![], &mut vec![false; k], k, &mut out);
    }
    else {
        out.push(id.iter().rev().copied().collect());
        for r in 1..k {
            out.push((0..k).map(|i| (i + r) % k).collect());
        }
        for i in 0..k - 1 {
            let mut p = id.clone();
            p.swap(i, i + 1);
            out.push(p);
        }
    }
    let mut seen = BTreeSet::new();
    out.retain(|p| seen.insert(p.clone()));
    out.truncate(7);
    out
}

pub fn check(sc: &Scenario, env: &mut Env) -> Result<Outcome, HarnessError> {
    let mut out = Outcome::default();
    let log = run_main(sc, env, &mut out)?;
    panic_clause("C16", sc, &log, &mut out);
    let wi = 0;
    let w = &sc.walkers[wi];
    let u = run_underlying(sc, env, wi)?;
    // the observer (an empty filter_entry table placed last) stays last; a stack without one is
    // permuted as a whole (its outermost combinator then changes from permutation to permutation)
    let has_observer = matches!(w.layers.last(), Some(Layer::Fe(t)) if t.is_empty());
    let k = if has_observer { w.layers.len() - 1 } else { w.layers.len() };
    if !has_observer {
        out.probe("stack:no-observer-on-top");
    }
    let perms = permutations(k);
    for (pi, perm) in perms.iter().enumerate() {
        let mut psc = sc.clone();
        let mut layers: Vec<Layer> = perm.iter().map(|i| w.layers[*i].clone()).collect();
        layers.extend(w.layers[k..].iter().cloned());
        psc.walkers[wi].layers = layers.clone();
        let plog = if pi == 0 { log.clone() } else { env.run(&psc)? };
        if pi != 0 {
            panic_clause("C16", &psc, &plog, &mut out);
        }
        let s = View::of(&plog, wi, &sc.cwd);
        if s.panic.is_some() {
            continue;
        }
        let ex = expect(&layers, &u, &env.root_text)?;
        let tag = format!("permutation {:?}", perm);
        // meet: exactly the entries every layer keeps, in the order of the underlying walk
        let actual: Vec<String> = s.ys.iter().map(|y| y.wp.clone().unwrap_or_default()).collect();
        if actual != ex.yields {
            let (mut a, mut e) = (actual.clone(), ex.yields.clone());
            a.sort();
            e.sort();
            let (missing, extra) = diff_sorted(&a, &e);
            // no-resurrect: an entry some layer discarded is yielded
            let resurrected: Vec<String> = extra
                .iter()
                .filter(|p| u.index.contains_key(*p))
                .map(|p| {
                    let j = u.index[p];
                    let by: Vec<usize> = (0..layers.len()).filter(|i| ex.lv[*i][j] != LV::Keep).collect();
                    format!("resurrected:{} (discarded by layers {:?}{})", p, by, if ex.dead_below.contains(&j) { ", beneath a discarded tree" } else { "" })
                })
                .collect();
            if !resurrected.is_empty() {
                out.violate(
                    "C16",
                    "no-resurrect",
                    wi,
                    format!("{}: {:?}", tag, resurrected),
                    extra.iter().map(|p| format!("extra:{}", p)).collect(),
                );
            }
            let mut items: Vec<String> = missing.iter().map(|m| format!("missing:{}", m)).collect();
            items.extend(extra.iter().map(|m| format!("extra:{}", m)));
            if items.is_empty() {
                items.push("order".into());
            }
            out.violate(
                "C16",
                "meet",
                wi,
                format!(
                    "{}: yielded entries differ from those every layer keeps; missing {:?} extra {:?} (stack {:?})",
                    tag, missing, extra, layers
                ),
                items,
            );
        }
        // observe-once
        let mut sets: Vec<(usize, BTreeSet<String>)> = Vec::new();
        for (li, layer) in layers.iter().enumerate() {
            if !matches!(layer, Layer::Fe(_)) {
                continue;
            }
            let seen = saw_paths(&s, li);
            let (leaks, skipped, dups, phantoms) = judge_feed(&seen, &u, &ex);
            let mut items = Vec::new();
            items.extend(leaks);
            items.extend(skipped);
            items.extend(dups);
            items.extend(phantoms);
            if !items.is_empty() {
                out.violate(
                    "C16",
                    "observe-once",
                    wi,
                    format!("{}: closure of layer {} (of {:?}): {:?}", tag, li, layers, items),
                    items,
                );
            }
            sets.push((li, seen.into_iter().collect()));
        }
        // every observer is shown the *same* entry: root segment, relative segment, depth and file
        // type of one path do not depend on the layer that looks, nor on whether an upstream layer
        // (or the glob) already discarded it
        {
            use std::collections::BTreeMap;
            let mut seen: BTreeMap<&str, (&str, &str, usize, char, usize)> = BTreeMap::new();
            for sw in &s.saws {
                let key = sw.path.as_str();
                let d = (sw.root.as_str(), sw.rel.as_str(), sw.depth, sw.ft, sw.layer);
                match seen.get(key) {
                    None => {
                        seen.insert(key, d);
                    },
                    Some(first) => {
                        if (first.0, first.1, first.2, first.3) != (d.0, d.1, d.2, d.3) {
                            out.violate(
                                "C16",
                                "observe-once",
                                wi,
                                format!(
                                    "{}: layers {} and {} were shown different descriptions of {:?}: (root {:?}, relative {:?}, depth {}, type {}) vs (root {:?}, relative {:?}, depth {}, type {})",
                                    tag, first.4, d.4, key, first.0, first.1, first.2, first.3, d.0, d.1, d.2, d.3
                                ),
                                vec![format!("description:{}", key)],
                            );
                        }
                    },
                }
            }
            // ... and the same as the consumer is given, for entries that are yielded
            for y in &s.ys {
                if let Some(first) = seen.get(y.path.as_str()) {
                    if (first.0, first.1, first.2, first.3) != (y.root.as_str(), y.rel.as_str(), y.depth, y.ft) {
                        out.violate(
                            "C16",
                            "observe-once",
                            wi,
                            format!("{}: layer {} was shown a different description of {:?} than the consumer was given", tag, first.4, y.path),
                            vec![format!("description:{}", y.path)],
                        );
                    }
                }
            }
        }
        for pair in sets.windows(2) {
            if pair[0].1 != pair[1].1 {
                let d: Vec<String> = pair[0].1.symmetric_difference(&pair[1].1).map(|p| format!("unequal:{}", p)).collect();
                out.violate(
                    "C16",
                    "observe-once",
                    wi,
                    format!("{}: closures of layers {} and {} observed different entries: {:?}", tag, pair[0].0, pair[1].0, d),
                    d,
                );
            }
        }
        // monotone (closure-free taps between all layers)
        if w.taps {
            monotone(&tag, wi, &s, &layers, &u, &ex, &mut out);
        }
        if ex.nontrivial {
            out.nontrivial = true;
        }
        if pi == 0 {
            walker_probes(w, &mut out);
            discard_probes(&layers, &u, &ex, &mut out);
        }
    }
    out.probe(format!("permutations:{}", perms.len()));
    Ok(out)
}

fn rank(c: char) -> u8 {
    match c {
        'F' => 0,
        'N' => 1,
        'T' => 2,
        _ => 9,
    }
}

/// Refinement of the separation algebra along the stack: `class_{i+1} = max(class_i, verdict_i)`.
pub fn monotone(tag: &str, wi: usize, s: &View, layers: &[Layer], u: &UFeed, ex: &Expect, out: &mut Outcome) {
    for (j, e) in u.entries.iter().enumerate() {
        if u.index.get(&e.wp) != Some(&j) {
            continue;
        }
        let classes: Vec<Option<char>> = (0..=layers.len())
            .map(|pos| {
                s.taps
                    .iter()
                    .find(|t| t.pos == pos && t.class != 'E' && t.wp.as_deref() == Some(e.wp.as_str()))
                    .map(|t| t.class)
            })
            .collect();
        let Some(mut cur) = classes[0]
        else {
            continue;
        };
        for i in 0..layers.len() {
            let Some(next) = classes[i + 1]
            else {
                out.violate(
                    "C16",
                    "monotone",
                    wi,
                    format!("{}: {:?} passed tap {} as {:?} but never reached tap {}", tag, e.wp, i, cur, i + 1),
                    vec![format!("vanished:{}", e.wp)],
                );
                break;
            };
            let allowed: Vec<char> = match ex.lv[i][j] {
                LV::Keep => vec![cur],
                LV::Node => vec![if rank(cur) >= 1 { cur } else { 'N' }],
                LV::Tree => {
                    if e.is_dir {
                        vec!['T']
                    }
                    else {
                        // a tree verdict on a non-directory may show as either residue kind
                        vec![if rank(cur) >= 1 { cur } else { 'N' }, 'T']
                    }
                },
                LV::NotTree => {
                    if e.is_dir {
                        vec!['T']
                    }
                    else {
                        vec![if rank(cur) >= 1 { cur } else { 'N' }, 'T']
                    }
                },
                LV::NotMay => vec![if rank(cur) >= 1 { cur } else { 'N' }, 'T'],
                LV::NotNode => {
                    if e.is_dir {
                        vec![if rank(cur) >= 1 { cur } else { 'N' }]
                    }
                    else {
                        vec![if rank(cur) >= 1 { cur } else { 'N' }, 'T']
                    }
                },
            };
            if !allowed.contains(&next) || rank(next) < rank(cur) {
                out.violate(
                    "C16",
                    "monotone",
                    wi,
                    format!(
                        "{}: {:?} is {:?} below layer {} ({:?}, verdict {:?}) and {:?} above it; allowed {:?}",
                        tag, e.wp, cur, i, layers[i], ex.lv[i][j], next, allowed
                    ),
                    vec![format!("class:{}", e.wp)],
                );
                break;
            }
            cur = next;
        }
    }
    // an error item is an error at every tap
    let errs0 = s.taps.iter().filter(|t| t.pos == 0 && t.class == 'E').count();
    for pos in 1..=layers.len() {
        let n = s.taps.iter().filter(|t| t.pos == pos && t.class == 'E').count();
        if n != errs0 {
            out.violate(
                "C16",
                "monotone",
                wi,
                format!("{}: {} error items at tap 0 but {} at tap {}", tag, errs0, n, pos),
                vec!["errors".into()],
            );
        }
    }
}
