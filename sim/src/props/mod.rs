pub mod c02;
pub mod c03;
pub mod c13;
pub mod stack;
pub mod c14;
pub mod c15;
pub mod c16;
pub mod c20;
pub mod c20fd;
pub mod common;

use crate::env::{Env, HarnessError};
use crate::gen::Tier;
use crate::oracle::Outcome;
use crate::rng::Rng;
use crate::scenario::Scenario;
use common::GenStats;

pub const PROPS: &[&str] = &["C02", "C03", "C13", "C14", "C15", "C16", "C20"];

pub fn generate(prop: &str, seed: u64, tier: Tier, stats: &mut GenStats) -> Scenario {
    // PATH_MAX is the environment's limit, not the library's: a scenario in which some path the walk
    // may spell comes near 4096 bytes (long names down a deep chain, reached once more through a
    // link, behind a base spelled with a detour) would meet ENAMETOOLONG, which no property speaks
    // of and no model here describes. Such a draw is replaced by the next draw of the same run
    // (deterministically: the attempt number is mixed into the seed) and counted as restricted.
    let mut attempt = 0u64;
    loop {
        let s = if attempt == 0 { seed } else { crate::rng::mix(seed, 0x5041_5448_0000 + attempt) };
        let mut sc = generate_once(prop, s, tier, stats);
        sc.seed = seed;
        sc.prop = prop.to_string();
        if longest_spelled_path(&sc) <= 3800 {
            return sc;
        }
        stats.restricted += 1;
        attempt += 1;
        assert!(attempt < 64, "no scenario within the path length budget");
    }
}

/// Upper estimate, in bytes, of the longest absolute path a walk of this scenario can spell.
pub fn longest_spelled_path(sc: &Scenario) -> usize {
    use crate::scenario::{Kind, Link, Spelling};
    let tree_max = sc.tree.iter().map(|n| n.path.len()).max().unwrap_or(0);
    let has_links = sc.tree.iter().any(|n| matches!(n.kind, Kind::Link { .. }));
    let mut longest = tree_max;
    // (with short paths everywhere, no nesting of the few links a tree has can come near the limit)
    if has_links && tree_max > 300 {
        if let Ok(m) = crate::model::Model::from_tree(&sc.tree) {
            for v in m.traverse("", Link::ReadTarget, None) {
                longest = longest.max(v.path.len());
            }
            // a walk that starts at (or climbs to) a directory below a link target spells no more
            // than the traversal from the world root does, except through a base that is a link:
            for w in &sc.walkers {
                for v in m.traverse(&w.base, Link::ReadTarget, None) {
                    longest = longest.max(v.path.len());
                }
            }
        }
    }
    let detour = sc
        .walkers
        .iter()
        .map(|w| match w.spelling {
            Spelling::Odd { .. } => w.base.len() + 8,
            _ => 8,
        })
        .max()
        .unwrap_or(0);
    let cwd_climb = 3 * (sc.cwd.matches('/').count() + 2);
    // scratch root (`/dev/shm/waxsim.<pid>/<16 hex digits>` or a foreign tree under /tmp) + slack
    128 + longest + detour + cwd_climb
}

fn generate_once(prop: &str, seed: u64, tier: Tier, stats: &mut GenStats) -> Scenario {
    let mut rng = Rng::new(seed);
    match prop {
        "C02" => c02::generate(&mut rng, tier, stats),
        "C14" => c14::generate(&mut rng, tier, stats),
        "C03" => c03::generate(&mut rng, tier, stats),
        "C13" => c13::generate(&mut rng, tier, stats),
        "C16" => c16::generate(&mut rng, tier, stats),
        "C15" => c15::generate(&mut rng, tier, stats),
        "C20" => c20::generate(&mut rng, tier, stats),
        _ => panic!("unknown property {}", prop),
    }
}

pub fn check(sc: &Scenario, env: &mut Env) -> Result<Outcome, HarnessError> {
    match sc.prop.as_str() {
        "C02" => c02::check(sc, env),
        "C14" => c14::check(sc, env),
        "C03" => c03::check(sc, env),
        "C13" => c13::check(sc, env),
        "C16" => c16::check(sc, env),
        "C15" => c15::check(sc, env),
        "C20" => c20::check(sc, env),
        p => Err(HarnessError(format!("unknown property {}", p))),
    }
}
