pub mod c02;
pub mod c03;
pub mod c13;
pub mod stack;
pub mod c14;
pub mod c15;
pub mod c16;
pub mod c20;
pub mod common;

use crate::env::{Env, HarnessError};
use crate::gen::Tier;
use crate::oracle::Outcome;
use crate::rng::Rng;
use crate::scenario::Scenario;
use common::GenStats;

pub const PROPS: &[&str] = &["C02", "C03", "C13", "C14", "C15", "C16", "C20"];

pub fn generate(prop: &str, seed: u64, tier: Tier, stats: &mut GenStats) -> Scenario {
    let mut rng = Rng::new(seed);
    let mut sc = match prop {
        "C02" => c02::generate(&mut rng, tier, stats),
        "C14" => c14::generate(&mut rng, tier, stats),
        "C03" => c03::generate(&mut rng, tier, stats),
        "C13" => c13::generate(&mut rng, tier, stats),
        "C16" => c16::generate(&mut rng, tier, stats),
        "C15" => c15::generate(&mut rng, tier, stats),
        "C20" => c20::generate(&mut rng, tier, stats),
        _ => panic!("unknown property {}", prop),
    };
    sc.seed = seed;
    sc.prop = prop.to_string();
    sc
}

pub fn check(sc: &Scenario, env: &mut Env) -> Result<Outcome, HarnessError> {
    match sc.prop.as_str() {
        "C02" => c02::check(sc, env),
        "C14" => c14::check(sc, env),
        "C03" => c03::check(sc, env),
        "C13" => c13::check(sc, env),
        "C16" => c16::check(sc, env),
        "C15" => c15::check(sc, env),
        "C20" => c20::check(sc, env),
        p => Err(HarnessError(format!("unknown property {}", p))),
    }
}
