//! C02 — walking a glob yields exactly the files whose relative path matches.

use wax::Program;

use crate::env::{Env, HarnessError};
use crate::gen::{Gen, LinkMode, Tier};
use crate::model::Model;
use crate::oracle::*;
use crate::props::common::*;
use crate::rng::Rng;
use crate::scenario::*;

pub fn generate(rng: &mut Rng, tier: Tier, stats: &mut GenStats) -> Scenario {
    let mut g = Gen::new(rng, tier);
    let links = if g.rng.chance(3, 10) { LinkMode::Safe } else { LinkMode::None };
    g.foreign_pct = 12;
    let tree = g.tree(links);
    let model = Model::from_tree(&tree).unwrap();
    let cwd = g.pick_dir(&model, 30);
    let nw = if g.rng.chance(1, 6) { if tier == Tier::Thorough && g.rng.chance(1, 3) { 3 } else { 2 } } else { 1 };
    let has_links = tree.iter().any(|n| matches!(n.kind, Kind::Link { .. }));
    let mut walkers = Vec::new();
    for _ in 0..nw {
        let base = g.pick_base(&model, 35, true);
        let link = if has_links && g.rng.chance(1, 2) { Link::ReadTarget } else { Link::ReadFile };
        let (mut expr, mut rooted) = ("**".to_string(), false);
        for _ in 0..6 {
            let (e, r) = g.walk_glob(&model, &base, if model.is_dir_node(&base) { 2 } else { 0 }, true, &mut stats.rejections);
            if link == Link::ReadTarget || !prefix_touches_link(&model, &base, &e, r) {
                expr = e;
                rooted = r;
                break;
            }
            stats.restricted += 1;
        }
        walkers.push(Walker {
            source: Source::Glob { expr, rooted },
            base,
            spelling: g.spelling(),
            link,
            depth: Depth::Unbounded,
            order: g.order(false),
            victims: vec![],
            layers: vec![],
            taps: g.rng.chance(1, 2),
            erased: false,
            form: g.rng.below(8) as u8,
        });
    }
    // Walks must not share hidden state: the second walker often repeats the first one's glob from
    // another base, or another glob from the same base.
    if nw == 2 {
        match g.rng.below(4) {
            0 | 1 => {
                let other = g.pick_dir(&model, 20);
                let src = walkers[0].source.clone();
                if let Source::Glob { expr, rooted } = &src {
                    // never leave the world: as many `..` as the other base is deep, at most
                    let ups = expr.split('/').take_while(|c| dot_kind(c) == Some("..")).count();
                    if ups <= depth_of(&other)
                        && model.is_dir_node(&other)
                        && (walkers[1].link == Link::ReadTarget || !prefix_touches_link(&model, &other, expr, *rooted))
                    {
                        walkers[1].source = src.clone();
                        walkers[1].base = other;
                    }
                }
            },
            2 => {
                let b = walkers[0].base.clone();
                if let Source::Glob { expr, rooted } = &walkers[1].source.clone() {
                    if (walkers[1].link == Link::ReadTarget || !prefix_touches_link(&model, &b, expr, *rooted)) && dot_kind(expr.split('/').next().unwrap_or("")).is_none() {
                        walkers[1].base = b;
                    }
                }
            },
            _ => {},
        }
    }
    // A link that leads *up*: from a directory at or below the first walker's base to a directory
    // strictly above that base. Under ReadTarget the walk passes through it (nothing it has entered
    // so far is re-entered), finds the base again beneath it, and only the second encounter of the
    // link is a cycle — the one error item a C02 scenario may contain, where the model says so.
    let (mut tree, mut model) = (tree, model);
    if g.rng.chance(1, 10) {
        let b = walkers[0].base.clone();
        let plain = Gen::plain_dirs(&model);
        if !b.is_empty() && plain.contains(&b) {
            let mut anc = vec![String::new()];
            let mut p = parent(&b);
            while !p.is_empty() {
                anc.push(p.to_string());
                p = parent(p);
            }
            let t = g.rng.pick(&anc).clone();
            let under: Vec<String> = plain.iter().filter(|d| is_under(d, &b)).cloned().collect();
            let d = g.rng.pick(&under).clone();
            let nm = *g.rng.pick(&g.names.clone());
            let path = join(&d, nm);
            if !tree.iter().any(|n| n.path == path) && path.len() <= 3000 {
                let target = if t.is_empty() {
                    if g.rng.chance(1, 2) { R.to_string() } else { Gen::rel_target(&d, &t) }
                }
                else if g.rng.chance(1, 2) {
                    format!("{}/{}", R, t)
                }
                else {
                    Gen::rel_target(&d, &t)
                };
                let mut tree2 = tree.clone();
                // (before any foreign node, which stay last)
                let at = tree2.iter().position(|n| is_foreign(&n.path)).unwrap_or(tree2.len());
                tree2.insert(at, Node { path, kind: Kind::Link { target }, mode: None });
                if let Ok(model2) = Model::from_tree(&tree2) {
                    let ok = walkers.iter().enumerate().all(|(k, w)| {
                        let link = if k == 0 { Link::ReadTarget } else { w.link };
                        let sp = Space::of(w, DUMMY_ROOT);
                        let vs = model2.traverse(&sp.start, link, None);
                        let Source::Glob { expr, rooted } = &w.source
                        else {
                            return false;
                        };
                        vs.len() <= 500
                            && vs.iter().all(|v| model2.hops(&v.path) <= 30)
                            && !link_into_prefix_path(&model2, &tree2, w)
                            // (a walk that starts beyond a link starts with an empty stack of
                            // ancestors, the model with the stack of the way there)
                            && !prefix_touches_link(&model2, &w.base, expr, *rooted)
                    });
                    if ok {
                        tree = tree2;
                        model = model2;
                        walkers[0].link = Link::ReadTarget;
                    }
                }
            }
        }
    }
    let mut schedule = interleaving(g.rng, nw, tree.len());
    // sometimes one of two walkers is dropped half-way: the other must not notice
    if nw == 2 && !schedule.is_empty() && g.rng.chance(1, 4) {
        let at = g.rng.below(schedule.len());
        schedule.insert(at, Step::D(g.rng.below(2)));
    }
    // Nothing a walk does may depend on process-global state at the time it is advanced: sometimes
    // walks are constructed lazily (after another one was abandoned), and sometimes — all bases
    // absolute — the working directory of the process changes between steps.
    let lazy = nw >= 2 && g.rng.chance(4, 10);
    if nw >= 2 && g.rng.chance(15, 100) {
        for w in walkers.iter_mut() {
            w.spelling = match g.rng.below(3) {
                0 => Spelling::AbsoluteSlash,
                1 => Spelling::AbsoluteSlashDot,
                _ => Spelling::Absolute,
            };
        }
        let dirs = Gen::plain_dirs(&model);
        for _ in 0..g.rng.range(1, 3) {
            let at = g.rng.below(schedule.len() + 1);
            schedule.insert(at, Step::Cd(g.rng.pick(&dirs).clone()));
        }
    }
    // ... or relative bases, one walk after the other: a walk is advanced for a while and dropped,
    // the working directory changes, and only then the next walk is constructed (lazily), its
    // relative base spelled from the new working directory.
    let mut lazy = lazy;
    if nw >= 2 && !schedule.iter().any(|s| matches!(s, Step::Cd(_))) && g.rng.chance(2, 10) {
        let dirs = Gen::plain_dirs(&model);
        schedule.clear();
        for wi in 0..nw {
            for _ in 0..g.rng.range(0, 2 * tree.len() + 2) {
                schedule.push(Step::W(wi));
            }
            if wi + 1 < nw {
                schedule.push(Step::D(wi));
                schedule.push(Step::Cd(g.rng.pick(&dirs).clone()));
            }
        }
        lazy = true;
    }
    // a base above the tree, up to the root of the file system (single walks only: the schedules
    // above re-spell bases)
    if nw == 1 {
        maybe_above(&mut g, &mut walkers[0], 10);
        maybe_empty_base(&mut g, &mut walkers[0], &cwd, 3);
    }
    Scenario {
        prop: "C02".into(),
        seed: 0,
        tree,
        cwd,
        walkers,
        mutations: vec![],
        schedule,
        triggers: vec![],
        lazy,
    }
}

pub fn check(sc: &Scenario, env: &mut Env) -> Result<Outcome, HarnessError> {
    let mut out = Outcome::default();
    let log = run_main(sc, env, &mut out)?;
    let model = model_of(sc)?;
    panic_clause("C02", sc, &log, &mut out);
    for (wi, w) in sc.walkers.iter().enumerate() {
        let Some(glob) = walk_glob(w, &env.root_text)
        else {
            continue;
        };
        let view = View::of(&log, wi, &sc.cwd);
        let space = Space::of(w, &env.root_text);
        let visits = model.traverse(&space.start, w.link, None);
        let root_missing = visits.iter().any(|v| v.fault.is_some());
        let mut expected: Vec<String> = Vec::new();
        let mut rejected = 0usize;
        let mut base_may = false;
        for v in visits.iter().filter(|v| v.fault.is_none()) {
            let r = space.rel(&v.path);
            let m = glob.is_match(r.as_str());
            if v.path == space.start && space.start_is_base {
                // "yields the base itself only if the glob matches the empty path"
                base_may = m;
                continue;
            }
            if m {
                expected.push(v.path.clone());
            }
            else {
                rejected += 1;
            }
        }
        expected.sort();
        let mut actual = view.yielded_sorted();
        if base_may {
            // MAY: remove one occurrence of the base, if present
            if let Some(i) = actual.iter().position(|p| *p == space.start) {
                actual.remove(i);
            }
        }
        let (mut missing, extra) = diff_sorted(&actual, &expected);
        if view.dropped {
            // a dropped walk is judged on what it produced so far: nothing wrong, nothing twice
            missing.clear();
            out.probe("walker:dropped-before-exhaustion");
        }
        if !missing.is_empty() || !extra.is_empty() {
            let mut items: Vec<String> = missing.iter().map(|m| format!("missing:{}", m)).collect();
            items.extend(extra.iter().map(|m| format!("extra:{}", m)));
            let clause = if !space.start_is_base || missing.len() + extra.len() != 1 || !extra.contains(&space.start) {
                "exact"
            }
            else {
                "base"
            };
            out.violate(
                "C02",
                clause,
                wi,
                format!(
                    "glob {:?} base {:?}: yielded set differs from {{e : is_match(rel(e))}}; missing {:?} extra {:?}",
                    w.source, w.base, missing, extra
                ),
                items,
            );
        }
        // all-or-nothing over entered directories, from the closure-free feed
        if w.taps && !view.dropped {
            partial_clause("C02", "partial", wi, &view, &visits, &mut out);
        }
        // a fault-free world yields no error (MAY: a walk root that does not exist)
        for e in &view.es {
            let root_gone = view.ys.is_empty()
                && view.es.len() == 1
                && expected.is_empty()
                && (e.kind == "NotFound" || e.kind == "NotADirectory")
                && e.wp.as_ref().map_or(true, |p| !model.is_dir_node(p));
            // (a link that leads up above the base is a cycle at its second encounter: the model
            // says where)
            let cycle = e.cycle
                && e.wp.as_ref().map_or(false, |p| visits.iter().any(|v| v.path == *p && matches!(v.fault, Some(crate::model::Fault::Cycle { .. }))));
            if cycle {
                out.probe("links:leading-up-above-the-base");
            }
            if !root_gone && !cycle {
                out.violate(
                    "C02",
                    "no-error",
                    wi,
                    format!("error item in a fault-free world: {:?}", e),
                    vec![format!("error:{}", e.path.clone().unwrap_or_default())],
                );
            }
        }
        let _ = root_missing;
        // reach
        let dirs = visits.iter().filter(|v| v.is_dir).count();
        if !expected.is_empty() && rejected > 0 && dirs >= 2 {
            out.nontrivial = true;
        }
        walker_probes(w, &mut out);
        if sc.tree.iter().any(|n| is_foreign(&n.path)) {
            out.probe("tree:another-file-system-behind-a-link");
        }
        if sc.tree.iter().any(|n| n.path.chars().any(|c| (0xF880..=0xF8FF).contains(&(c as u32)))) {
            out.probe("names:not-valid-utf8");
        }
        if sc.lazy {
            out.probe("walkers:constructed-lazily");
        }
        if sc.walkers.iter().enumerate().any(|(k, o)| k != wi && o.source == w.source && matches!(o.source, Source::Glob { .. })) {
            out.probe("walkers:one-glob-value-shared");
        }
        if sc.schedule.iter().any(|s| matches!(s, Step::Cd(_))) {
            out.probe("process:working-directory-changes-mid-run");
        }
        if let Source::Glob { expr, rooted } = &w.source {
            if *rooted {
                out.probe("glob:rooted");
            }
            if !space.lead.is_empty() && !*rooted {
                out.probe("glob:dot-prefix");
            }
            if expr.contains("(?i)") {
                out.probe("glob:case-flag");
            }
            if expr.contains("**") {
                out.probe("glob:tree-wildcard");
            }
            if expr.contains('{') {
                out.probe("glob:alternation");
            }
            if expr.contains('<') {
                out.probe("glob:repetition");
            }
        }
        if visits.iter().any(|v| v.depth > 10) {
            out.probe("walkdir:handle-limit-exceeded");
        }
        // pruned directories (fed but not entered though non-empty), by depth
        if w.taps {
            for v in visits.iter().filter(|v| v.is_dir) {
                let kids = children_of(&visits, &v.path);
                if kids.is_empty() {
                    continue;
                }
                let fed_self = view.taps.iter().any(|t| t.pos == 0 && t.wp.as_deref() == Some(&v.path));
                let fed_kid = view
                    .taps
                    .iter()
                    .any(|t| t.pos == 0 && t.wp.as_deref().map_or(false, |p| parent(p) == v.path && p != v.path));
                if fed_self && !fed_kid {
                    out.probe(format!("glob-prune:depth{}", v.depth.min(3)));
                }
            }
        }
    }
    Ok(out)
}
