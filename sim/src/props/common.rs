//! Pieces shared by the property profiles.

use std::collections::BTreeMap;

use crate::exec::glob_text;
use crate::model::{Fault, Model, Visit};
use crate::oracle::*;
use crate::rng::Rng;
use crate::scenario::*;

#[derive(Default, Clone, Debug)]
pub struct GenStats {
    /// expressions the generator produced that did not build (counted, not errors)
    pub rejections: usize,
    /// draws discarded by a documented sampling restriction
    pub restricted: usize,
}

pub const DUMMY_ROOT: &str = "/dev/shm/waxsim.0/w0/r0000000000000000";

/// Random interleaving of `nw` walkers (the drain after the schedule finishes the rest).
pub fn interleaving(rng: &mut Rng, nw: usize, size: usize) -> Vec<Step> {
    if nw <= 1 {
        return vec![];
    }
    let n = rng.range(0, 2 * size + 4);
    (0..n).map(|_| Step::W(rng.below(nw))).collect()
}

/// Sampling restriction (C02 §3): under the documented "prefix is interpreted semantically as a
/// path" rule, a link that lies on the invariant prefix of the glob is followed whatever the link
/// policy. Such draws are excluded at generation; the oracle is not relaxed.
/// (`Glob::partition` is used here only to decide what to sample, never to judge.)
pub fn prefix_touches_link(model: &Model, base: &str, expr: &str, rooted: bool) -> bool {
    let text = glob_text(expr, rooted, DUMMY_ROOT);
    let Ok(glob) = wax::Glob::new(&text)
    else {
        return false;
    };
    let (prefix, _) = glob.partition();
    let prefix = prefix.to_string_lossy().into_owned();
    // components of the prefix below the directory the glob is anchored at
    let (mut cur, comps): (String, Vec<String>) = if rooted {
        match prefix.strip_prefix(DUMMY_ROOT) {
            Some(r) => (String::new(), r.split('/').filter(|c| !c.is_empty()).map(String::from).collect()),
            None => return true,
        }
    }
    else {
        (base.to_string(), prefix.split('/').filter(|c| !c.is_empty() && *c != ".").map(String::from).collect())
    };
    // The base itself may be a link to a directory (the caller chose it as the place to walk;
    // walking it is not "descending into a linked directory"): only what the prefix adds counts.
    for c in comps {
        if c == ".." {
            // dot-prefixed globs are only drawn from plain directories
            cur = parent(&cur).to_string();
            continue;
        }
        cur = join(&cur, &c);
        match model.resolve(&cur, false) {
            Ok(node) => {
                if matches!(model.get(&node), Some(i) if matches!(i.kind, Kind::Link { .. })) {
                    return true;
                }
            },
            // a prefix that does not exist touches nothing
            Err(_) => return false,
        }
    }
    false
}

/// All-or-nothing over entered directories, judged on the closure-free feed (tap at position 0):
/// a directory is either entered — then every child is fed exactly once, as an entry or as its
/// error — or not entered. A partial listing is what a mis-aimed `skip_current_dir` produces.
pub fn partial_clause(prop: &str, clause: &str, wi: usize, view: &View, visits: &[Visit], out: &mut Outcome) {
    let mut fed: BTreeMap<&str, usize> = BTreeMap::new();
    // The walk may start below the traversal start of the model (a glob with an invariant prefix
    // starts at the prefix directory): the first fed item is the walk root; only directories at or
    // below it can be entered at all.
    let walk_root: Option<String> = view
        .taps
        .iter()
        .find(|t| t.pos == 0)
        .and_then(|t| t.wp.clone());
    for t in view.taps.iter().filter(|t| t.pos == 0) {
        if let Some(p) = t.wp.as_deref() {
            // an unreadable directory is fed twice by design: as entry and as its error
            if t.class == 'E' && visits.iter().any(|v| v.path == p && v.fault.as_ref().map_or(false, |f| f.yields_entry())) {
                continue;
            }
            *fed.entry(p).or_insert(0) += 1;
        }
    }
    for (p, n) in &fed {
        if *n > 1 {
            out.violate(prop, clause, wi, format!("{:?} fed {} times", p, n), vec![format!("dup:{}", p)]);
        }
        let is_error_only = view
            .taps
            .iter()
            .all(|t| t.pos != 0 || t.wp.as_deref() != Some(*p) || t.class == 'E');
        if !is_error_only && !visits.iter().any(|v| v.path == *p) {
            out.violate(prop, clause, wi, format!("{:?} fed but not in the model", p), vec![format!("phantom:{}", p)]);
        }
    }
    for d in visits.iter().filter(|v| v.is_dir) {
        if !walk_root.as_ref().map_or(false, |w| is_under(&d.path, w)) {
            continue;
        }
        let kids = children_of(visits, &d.path);
        let fed_kids = kids.iter().filter(|k| fed.contains_key(k.path.as_str())).count();
        if fed_kids > 0 && fed_kids < kids.len() {
            let missing: Vec<String> = kids
                .iter()
                .filter(|k| !fed.contains_key(k.path.as_str()))
                .map(|k| format!("unfed:{}", k.path))
                .collect();
            out.violate(
                prop,
                clause,
                wi,
                format!("directory {:?} partially listed: {} of {} children fed", d.path, fed_kids, kids.len()),
                missing,
            );
        }
    }
}

pub fn walker_probes(w: &Walker, out: &mut Outcome) {
    if w.spelling == Spelling::Empty {
        out.probe("base:spelled-as-the-empty-path");
    }
    if let Spelling::Above { levels, .. } = w.spelling {
        out.probe(if levels == 255 { "base:root-of-the-file-system" } else { "base:above-the-world" });
    }
    if let Ok(beh) = crate::exec::behavior(w, DUMMY_ROOT) {
        out.probe(format!("behaviour-passed-as:{}", crate::exec::beh_arg(w.form, beh).1));
    }
    out.probe(format!("spelling:{:?}", w.spelling));
    out.probe(format!(
        "order:{}",
        match w.order {
            Order::Native => "native",
            Order::Lex => "lex",
            Order::Rev => "rev",
            Order::DirsFirst => "dirs-first",
            Order::FilesFirst => "files-first",
            Order::Keyed(_) => "keyed",
            Order::VictimFirst(_) => "victim-first",
            Order::VictimLast(_) => "victim-last",
        }
    ));
    out.probe(format!("link:{:?}", w.link));
    out.probe(format!("layers:{}", w.layers.len()));
    out.probe(if w.taps { "taps:on" } else { "taps:off" });
    out.probe(if w.erased { "stack:type-erased" } else { "stack:statically-composed" });
    match &w.source {
        Source::Path => out.probe("source:path"),
        Source::Glob { .. } => out.probe("source:glob"),
    }
}

/// `$R`-normalised text back to the real path text.
pub fn denorm(text: &str, root_text: &str) -> String {
    crate::exec::denorm_text(text, root_text)
}

/// Root-relative path text of world path `wp` for walker `w` (the path relative to the root
/// segment: the base for unrooted globs and path walks, the whole path for rooted globs).
pub fn root_relative(_w: &Walker, space: &Space, wp: &str) -> String {
    if is_under(wp, &space.start) {
        space.rel(wp)
    }
    else {
        wp.to_string()
    }
}

/// Source of an underlying walk for the stack profiles: a path walk or any C02-shaped glob walk.
pub fn underlying_source(
    g: &mut crate::gen::Gen,
    model: &Model,
    base: &str,
    stats: &mut GenStats,
) -> Source {
    if g.rng.chance(4, 10) {
        return Source::Path;
    }
    for _ in 0..6 {
        let (e, r) = g.walk_glob(model, base, if model.is_dir_node(base) { 1 } else { 0 }, true, &mut stats.rejections);
        // (the properties that use this source compare with a second execution of the same walk,
        // so a walk root that is a link — followed whatever the policy — needs no interpretation;
        // half of such draws are kept)
        if !prefix_touches_link(model, base, &e, r) || g.rng.chance(1, 2) {
            let probe = Walker {
                source: Source::Glob { expr: e.clone(), rooted: r },
                base: base.to_string(),
                spelling: Spelling::Absolute,
                link: Link::ReadTarget,
                depth: Depth::Unbounded,
                order: Order::Lex,
                victims: vec![],
                layers: vec![],
                taps: false,
                erased: false,
                form: 0,
            };
            if !cycle_above_prefix(model, &probe) {
                return Source::Glob { expr: e, rooted: r };
            }
        }
        stats.restricted += 1;
    }
    Source::Glob {
        expr: "**".to_string(),
        rooted: false,
    }
}

/// Sampling restriction: a link that re-enters an ancestor *above* the directory the walk starts
/// in (the invariant prefix of the glob) is not an ancestor on the walked path; whether it counts
/// as "one of its ancestors" is ambiguous, so such draws are not sampled.
/// (`Glob::partition` decides what to sample, never what to judge.)
/// Narrower than `cycle_above_prefix`: `true` if some link of the tree points at a directory that
/// lies on the way from where the model starts (the base) down to where the walk really starts
/// (the base joined with the glob's invariant prefix), the latter excluded. Only those directories
/// are on the model's stack of ancestors without being on the walk's.
pub fn link_into_prefix_path(model: &Model, tree: &[Node], w: &Walker) -> bool {
    let Source::Glob { expr, rooted } = &w.source
    else {
        return false;
    };
    let text = glob_text(expr, *rooted, DUMMY_ROOT);
    let Ok(glob) = wax::Glob::new(&text)
    else {
        return true;
    };
    let (prefix, _) = glob.partition();
    let prefix = prefix.to_string_lossy().into_owned();
    let start: Option<String> = if *rooted {
        prefix.strip_prefix(DUMMY_ROOT).map(|r| r.trim_matches('/').to_string())
    }
    else {
        crate::exec::to_world(&format!("{}/{}/{}", R, w.base, prefix), "")
    };
    let Some(start) = start
    else {
        return true;
    };
    let space = Space::of(w, DUMMY_ROOT);
    // (compared as the directories they denote: the base may itself be a link, and a link's target
    // is resolved, so texts alone would miss `a -> b` as base with a link to `b` beneath the prefix)
    let (Ok(start), Ok(from)) = (model.resolve(&start, true), model.resolve(&space.start, true))
    else {
        // a walk root that does not exist touches nothing
        return false;
    };
    tree.iter().filter(|n| matches!(n.kind, Kind::Link { .. })).any(|n| match model.resolve(&n.path, true) {
        Ok(t) => t != start && is_under(&start, &t) && is_under(&t, &from),
        Err(_) => false,
    })
}

pub fn cycle_above_prefix(model: &Model, w: &Walker) -> bool {
    let Source::Glob { expr, rooted } = &w.source
    else {
        return false;
    };
    let text = glob_text(expr, *rooted, DUMMY_ROOT);
    let Ok(glob) = wax::Glob::new(&text)
    else {
        return false;
    };
    let (prefix, _) = glob.partition();
    let prefix = prefix.to_string_lossy().into_owned();
    let start: Option<String> = if *rooted {
        prefix.strip_prefix(DUMMY_ROOT).map(|r| r.trim_matches('/').to_string())
    }
    else {
        crate::exec::to_world(&format!("{}/{}/{}", R, w.base, prefix), "")
    };
    let Some(start) = start
    else {
        return true;
    };
    let space = Space::of(w, DUMMY_ROOT);
    model
        .traverse(&space.start, Link::ReadTarget, None)
        .iter()
        .any(|v| matches!(&v.fault, Some(Fault::Cycle { ancestor }) if !is_under(ancestor, &start) ) && is_under(&v.path, &start))
}


/// Sometimes moves the base of a glob walker *above* the world ("all base directories inside or
/// above the tree"), up to the root of the file system: the glob gets the components in between as
/// a literal prefix (`$UP<k>`), so the walk itself still starts at the world root.
pub fn maybe_above(g: &mut crate::gen::Gen, w: &mut Walker, one_in: usize) {
    if !w.base.is_empty() || !g.rng.chance(1, one_in) {
        return;
    }
    let Source::Glob { expr, rooted: false } = &w.source
    else {
        return;
    };
    if dot_kind(expr.split('/').next().unwrap_or("")).is_some() || expr.starts_with('$') {
        return;
    }
    let levels: u8 = match g.rng.below(10) {
        0..=2 => 1,
        3..=4 => 2,
        _ => 255,
    };
    let expr = if expr.is_empty() { format!("$UP{}", levels) } else { format!("$UP{}/{}", levels, expr) };
    // (with a prefix before it an expression may stop building, or make `Glob::new` panic — the
    // totality matter of C05, not sampled: such a draw stays where it was)
    let text = crate::exec::glob_text(&expr, false, DUMMY_ROOT);
    if !matches!(crate::exec::guarded(|| wax::Glob::new(&text).is_ok()), Ok(true)) {
        return;
    }
    w.source = Source::Glob { expr, rooted: false };
    w.spelling = Spelling::Above { levels, slash: g.rng.chance(1, 3) };
}

/// Sometimes spells the base of a glob walker as the empty path (only where the working directory
/// is the base and the glob begins with a literal component, so that the walk root is named by
/// the glob's own prefix).
pub fn maybe_empty_base(g: &mut crate::gen::Gen, w: &mut Walker, cwd: &str, one_in: usize) {
    if w.base != cwd || matches!(w.spelling, Spelling::Above { .. }) {
        return;
    }
    let Source::Glob { expr, rooted: false } = &w.source
    else {
        return;
    };
    let first = expr.split('/').next().unwrap_or("");
    let literal = !first.is_empty()
        && dot_kind(first).is_none()
        && !first.contains(['*', '?', '[', '{', '<', '(', '$', '\\']);
    if literal && g.rng.chance(1, one_in) {
        w.spelling = Spelling::Empty;
    }
}
