//! C15 — depth and link behaviours bound the walk as documented.

use std::path::Path;

use wax::Program;

use crate::env::{Env, HarnessError};
use crate::exec::depth_shift;
use crate::gen::{Gen, LinkMode, Tier};
use crate::model::{Fault, Model};
use crate::oracle::*;
use crate::props::common::*;
use crate::rng::Rng;
use crate::scenario::*;

pub fn depth_behaviour(g: &mut Gen, deepest: usize, prefix_len: usize) -> Depth {
    let hi = deepest + 2;
    // bounds near the machine word: the translation to the walk root must not overflow or wrap
    if g.rng.chance(4, 100) {
        let big = *g.rng.pick(&[usize::MAX, usize::MAX - 1, usize::MAX / 2, u32::MAX as usize]);
        let small = g.rng.range(0, hi);
        return match g.rng.below(6) {
            0 => Depth::Max(big),
            1 => Depth::Min(big),
            2 => Depth::MinMax(small, big),
            3 => Depth::MinMax(big, small),
            4 => Depth::MinMax(big, big),
            _ => Depth::Bounded(Some(small.max(1)), Some(big)),
        };
    }
    match g.rng.below(12) {
        0 | 1 => Depth::Max(g.rng.range(0, hi)),
        // maxima below the prefix length
        2 if prefix_len > 0 => Depth::Max(g.rng.range(0, prefix_len)),
        2 => Depth::Max(0),
        3 | 4 => Depth::Min(g.rng.range(0, hi)),
        5 | 6 => Depth::MinMax(g.rng.range(0, hi), g.rng.range(0, hi)),
        7 => {
            let a = g.rng.range(1, hi);
            Depth::Bounded(Some(a), Some(g.rng.range(a, hi + 1)))
        },
        8 => Depth::Bounded(None, Some(g.rng.range(0, hi))),
        9 => Depth::Bounded(Some(g.rng.range(1, hi)), None),
        _ => Depth::Unbounded,
    }
}

pub fn generate(rng: &mut Rng, tier: Tier, stats: &mut GenStats) -> Scenario {
    let mut g = Gen::new(rng, tier);
    let links = match g.rng.below(10) {
        0 | 1 => LinkMode::None,
        2 | 3 => LinkMode::Safe,
        _ => LinkMode::All,
    };
    g.foreign_pct = 15;
    let tree = g.tree(links);
    let model = Model::from_tree(&tree).unwrap();
    let cwd = g.pick_dir(&model, 40);
    let base = g.pick_base(&model, 45, links == LinkMode::Safe);
    let link = if g.rng.chance(1, 2) { Link::ReadTarget } else { Link::ReadFile };
    let deepest = tree.iter().map(|n| depth_of(&n.path)).max().unwrap_or(1);
    let mut w = Walker {
        source: Source::Path,
        base,
        spelling: g.spelling(),
        link,
        depth: Depth::Unbounded,
        order: g.order(false),
        victims: vec![],
        layers: vec![],
        taps: g.rng.chance(1, 4),
        erased: false,
        form: g.rng.below(8) as u8,
    };
    if g.rng.chance(7, 10) {
        w.source = Source::Glob {
            expr: "**".into(),
            rooted: false,
        };
        for _ in 0..8 {
            let (e, r) = g.walk_glob(&model, &w.base, if model.is_dir_node(&w.base) { 1 } else { 0 }, true, &mut stats.rejections);
            let cand = Walker {
                source: Source::Glob { expr: e, rooted: r },
                ..w.clone()
            };
            let Source::Glob { expr, rooted } = &cand.source
            else {
                unreachable!()
            };
            // (when links are followed and the tree has no faulty link, a link on the prefix is just
            // another followed link)
            let prefix_link_ok = w.link == Link::ReadTarget && links == LinkMode::Safe;
            if (!prefix_link_ok && prefix_touches_link(&model, &w.base, expr, *rooted)) || cycle_above_prefix(&model, &cand) {
                stats.restricted += 1;
                continue;
            }
            w = cand;
            break;
        }
    }
    // a path walk of a regular file yields just that file
    if w.source == Source::Path && g.rng.chance(4, 100) {
        let files: Vec<&Node> = tree
            .iter()
            .filter(|n| n.kind == Kind::File && Gen::plain_dirs(&model).contains(&parent(&n.path).to_string()))
            .collect();
        if !files.is_empty() {
            w.base = g.rng.pick(&files).path.clone();
            w.spelling = if g.rng.chance(1, 2) { Spelling::Absolute } else { Spelling::Relative };
        }
    }
    let prefix_len = match &w.source {
        Source::Glob { expr, .. } => expr.split('/').take_while(|c| !c.is_empty() && !c.contains(['*', '?', '[', '{', '<', '('])).count(),
        _ => 0,
    };
    w.depth = depth_behaviour(&mut g, deepest, prefix_len);
    // the fourth public constructor: a window relative to the smallest depth the glob itself can
    // match at (`bounded_at_depth_variance`); that depth is read from the public query here and
    // becomes explicit data of the scenario
    if let Source::Glob { expr, rooted: false } = &w.source {
        let plain = dot_kind(expr.split('/').next().unwrap_or("")).is_none();
        if plain && g.rng.chance(1, 9) {
            let text = expr.clone();
            let lower = crate::exec::guarded(|| {
                wax::Glob::new(&text).ok().map(|glob| match wax::Program::depth(&glob) {
                    wax::query::Variance::Invariant(d) => d,
                    wax::query::Variance::Variant(bounds) => bounds.lower().bounded().map_or(0, usize::from),
                })
            });
            if let Ok(Some(lower)) = lower {
                let a = if g.rng.chance(1, 3) { None } else { Some(g.rng.range(if lower == 0 { 1 } else { 0 }, 3)) };
                let b = if a.is_some() && g.rng.chance(1, 3) { None } else { Some(g.rng.range(a.unwrap_or(0), a.unwrap_or(0) + 3)) };
                w.depth = Depth::AtVariance(a, b, lower);
            }
        }
    }
    Scenario {
        prop: "C15".into(),
        seed: 0,
        tree,
        cwd,
        walkers: vec![w],
        mutations: vec![],
        schedule: vec![],
        triggers: vec![],
        lazy: false,
    }
}

pub fn check(sc: &Scenario, env: &mut Env) -> Result<Outcome, HarnessError> {
    let mut out = Outcome::default();
    // `bounded_at_depth_variance` is only drawn with windows that are valid once translated
    // (minimum not above maximum, minimum at least one): a refusal leaves the user without the
    // documented walk, and is reported instead of being taken for a scenario that does not build
    for (wi, w) in sc.walkers.iter().enumerate() {
        if let Depth::AtVariance(a, b, lower) = w.depth {
            if let Err(e) = crate::exec::behavior(w, &env.root_text) {
                out.violate(
                    "C15",
                    "depth",
                    wi,
                    format!("DepthBehavior::bounded_at_depth_variance({:?}, {:?}, depth of {:?}) with lowest matching depth {}: {}", a, b, w.source, lower, e),
                    vec!["constructor-refused".into()],
                );
                return Ok(out);
            }
        }
    }
    let log = run_main(sc, env, &mut out)?;
    panic_clause("C15", sc, &log, &mut out);
    let model = model_of(sc)?;
    for (wi, w) in sc.walkers.iter().enumerate() {
        let view = View::of(&log, wi, &sc.cwd);
        if view.panic.is_some() {
            continue;
        }
        let glob = walk_glob(w, &env.root_text);
        let space = Space::of(w, &env.root_text);
        let shift = depth_shift(w, &env.root_text);
        let (min, max) = w.depth.shifted(shift).window();
        let visits = model.traverse(&space.start, w.link, None);
        let depth_of_rel = |p: &str| Path::new(&space.rel(p)).components().count();
        let mut expected: Vec<String> = Vec::new();
        let mut cut_by_window = 0usize;
        let mut base_may = false;
        let mut cycles: Vec<(String, String)> = Vec::new();
        let mut other_link_faults: Vec<String> = Vec::new();
        for v in &visits {
            let d = depth_of_rel(&v.path);
            match &v.fault {
                Some(Fault::Cycle { ancestor }) => {
                    // reported whenever the link itself is within the maximum depth
                    if max.map_or(true, |m| d <= m) {
                        cycles.push((v.path.clone(), ancestor.clone()));
                    }
                    continue;
                },
                Some(Fault::Dangling) | Some(Fault::ELoop) => {
                    other_link_faults.push(v.path.clone());
                    continue;
                },
                Some(Fault::RootMissing) => continue,
                _ => {},
            }
            let r = space.rel(&v.path);
            let m = glob.as_ref().map_or(true, |g| g.is_match(r.as_str()));
            let inside = d >= min && max.map_or(true, |mx| d <= mx);
            let is_glob_base = glob.is_some() && v.path == space.start && space.start_is_base;
            if is_glob_base {
                base_may = m && inside;
                continue;
            }
            if m && inside {
                expected.push(v.path.clone());
            }
            else if m {
                cut_by_window += 1;
            }
        }
        expected.sort();
        let mut actual = view.yielded_sorted();
        // The base itself: C02 says it is yielded "only if" the glob matches the empty path and
        // leaves the converse open (`*` matches the empty path and the base is not yielded), so the
        // model cannot say whether it is due. A depth behaviour, however, only *bounds* the walk:
        // if depth 0 is inside the window, the base is yielded exactly if the same walk without
        // bounds yields it (second execution of the real code, bounds removed).
        if base_may && w.depth != Depth::Unbounded {
            let mut usc = sc.clone();
            usc.walkers[wi].depth = Depth::Unbounded;
            usc.walkers[wi].form = 0;
            let ulog = env.run(&usc)?;
            let uview = View::of(&ulog, wi, &sc.cwd);
            let unbounded = uview.ys.iter().any(|y| y.wp.as_deref() == Some(space.start.as_str()));
            let bounded = actual.iter().any(|p| *p == space.start);
            if uview.panic.is_none() && unbounded != bounded {
                out.violate(
                    "C15",
                    "depth",
                    wi,
                    format!(
                        "{:?} base {:?} {:?} (window {}..={:?}): depth 0 is inside the window, yet the base is {} although the same walk without bounds {}",
                        w.source,
                        w.base,
                        w.depth,
                        min,
                        max,
                        if bounded { "yielded" } else { "not yielded" },
                        if unbounded { "yields it" } else { "does not yield it" }
                    ),
                    vec![format!("{}:{}", if bounded { "extra" } else { "missing" }, space.start)],
                );
            }
            out.probe("depth:base-inside-window-compared-with-unbounded-walk");
        }
        if base_may {
            if let Some(i) = actual.iter().position(|p| *p == space.start) {
                actual.remove(i);
            }
        }
        let (missing, extra) = diff_sorted(&actual, &expected);
        if !missing.is_empty() || !extra.is_empty() {
            let mut items: Vec<String> = missing.iter().map(|m| format!("missing:{}", m)).collect();
            items.extend(extra.iter().map(|m| format!("extra:{}", m)));
            out.violate(
                "C15",
                "depth",
                wi,
                format!(
                    "{:?} base {:?} {:?} {:?} (window {}..={:?}): yielded set differs from the matching entries inside the depth window under the link policy; missing {:?} extra {:?}",
                    w.source, w.base, w.depth, w.link, min, max, missing, extra
                ),
                items,
            );
        }
        // reading links as files never descends into a linked directory
        if w.link == Link::ReadFile {
            for y in &view.ys {
                let Some(wp) = &y.wp
                else {
                    continue;
                };
                let mut p: &str = wp;
                while is_below(p, &space.start) {
                    p = parent(p);
                    if p != space.start && matches!(model.get(p).map(|i| &i.kind), Some(Kind::Link { .. })) {
                        out.violate(
                            "C15",
                            "readfile",
                            wi,
                            format!("{:?} was yielded through link {:?} although links are read as files", wp, p),
                            vec![format!("extra:{}", wp)],
                        );
                    }
                }
            }
        }
        // reading targets: each re-entering link is reported once, as a non-I/O error naming the link
        let mut unexplained: Vec<&E> = Vec::new();
        let mut seen_cycles: Vec<&str> = Vec::new();
        for e in &view.es {
            let wp = e.wp.clone().unwrap_or_default();
            if let Some((link, _)) = cycles.iter().find(|(l, _)| *l == wp) {
                if seen_cycles.contains(&link.as_str()) {
                    out.violate("C15", "readtarget", wi, format!("cycle at {:?} reported twice", link), vec![format!("dup-error:{}", link)]);
                }
                seen_cycles.push(link.as_str());
                if !e.cycle || e.kind != "Other" || !e.display.contains(lossy(e.path.as_deref().unwrap_or("\u{0}")).as_str()) {
                    out.violate(
                        "C15",
                        "readtarget",
                        wi,
                        format!("re-entering link {:?} reported as {:?} (kind {}, cycle {})", link, e.display, e.kind, e.cycle),
                        vec![format!("error:{}", link)],
                    );
                }
                out.fire("cycle");
            }
            else if other_link_faults.contains(&wp) {
                // dangling / self-referential links are I/O faults: judged by C20, tolerated here
                out.fire("dangling-or-eloop");
            }
            else {
                unexplained.push(e);
            }
        }
        if w.link == Link::ReadTarget {
            for (link, anc) in &cycles {
                // The error MUST be reported when the walk demonstrably listed the directory that
                // holds the link (all-or-nothing: a listed directory feeds every child, as an entry
                // or as its error): always for a path walk; for a glob walk when two siblings of
                // the link were yielded, reported or fed. A glob walk that never lists the directory
                // (it starts below it, or pruned it) MAY stay silent; losing matches that way is
                // the depth clause's business.
                let dir = parent(link);
                // (One observed child proves nothing: it may be the directory the walk started
                // in. Two distinct children can only come from a listing.)
                let sibling = |p: &Option<String>| -> Option<String> {
                    p.as_deref().filter(|p| *p != link && *p != dir && parent(p) == dir).map(String::from)
                };
                let mut observed: std::collections::BTreeSet<String> = std::collections::BTreeSet::new();
                observed.extend(view.ys.iter().filter_map(|y| sibling(&y.wp)));
                observed.extend(view.es.iter().filter_map(|e| sibling(&e.wp)));
                observed.extend(view.taps.iter().filter_map(|t| sibling(&t.wp)));
                let obliged = glob.is_none() || observed.len() >= 2;
                if !obliged {
                    out.probe("link:cycle-in-prunable-directory");
                    continue;
                }
                if !seen_cycles.contains(&link.as_str()) {
                    out.violate(
                        "C15",
                        "readtarget",
                        wi,
                        format!("link {:?} re-enters its ancestor {:?} but no error item names it", link, anc),
                        vec![format!("no-error:{}", link)],
                    );
                }
            }
        }
        for e in unexplained {
            // a walk root that does not exist may be reported (as in C02)
            let root_gone = view.ys.is_empty()
                && expected.is_empty()
                && (e.kind == "NotFound" || e.kind == "NotADirectory")
                && e.wp.as_ref().map_or(true, |p| !model.is_dir_node(p));
            if !root_gone {
                out.violate(
                    "C15",
                    "readtarget",
                    wi,
                    format!("unexpected error item {:?}", e),
                    vec![format!("error:{}", e.path.clone().unwrap_or_default())],
                );
            }
        }
        // bounded liveness: the walk terminates on every finite tree
        if view.budget || !view.ended {
            out.violate(
                "C15",
                "live",
                wi,
                format!("the walk did not finish within the budget of {} calls to next()", Env::budget(sc, &model, w)),
                vec!["no-termination".into()],
            );
        }
        // reach
        let through_link = visits.iter().any(|v| {
            let mut p: &str = &v.path;
            let mut hit = false;
            while is_below(p, &space.start) {
                p = parent(p);
                if matches!(model.get(p).map(|i| &i.kind), Some(Kind::Link { .. })) {
                    hit = true;
                }
            }
            hit
        });
        if cut_by_window > 0 || (w.link == Link::ReadTarget && (through_link || !cycles.is_empty())) {
            out.nontrivial = true;
        }
        walker_probes(w, &mut out);
        if sc.tree.iter().any(|n| is_foreign(&n.path)) {
            out.probe("tree:another-file-system-behind-a-link");
        }
        if !model.is_dir_node(&w.base) {
            out.probe("base:regular-file");
        }
        out.probe(format!(
            "depth:{}",
            match w.depth {
                Depth::Unbounded => "unbounded",
                Depth::Max(_) => "DepthMax",
                Depth::Min(_) => "DepthMin::from_min_or_unbounded",
                Depth::MinMax(..) => "DepthMinMax::from_depths_or_max",
                Depth::Bounded(..) => "DepthBehavior::bounded",
                Depth::AtVariance(..) => "DepthBehavior::bounded_at_depth_variance",
            }
        ));
        if let Depth::MinMax(p, q) = w.depth {
            if p > q {
                out.probe("depth:minmax-unordered-arguments");
            }
        }
        let (lo, hi_) = w.depth.window();
        if lo > (u32::MAX as usize) / 2 || hi_.map_or(false, |h| h > (u32::MAX as usize) / 2) {
            out.probe("depth:bounds-near-the-machine-word");
        }
        let walk_root_depth = visits.iter().filter(|v| glob.as_ref().map_or(true, |g| g.is_match(space.rel(&v.path).as_str()))).map(|v| depth_of_rel(&v.path)).min();
        if let (Some(mx), Some(wd)) = (max, walk_root_depth) {
            if mx < wd {
                out.probe("depth:max-below-shallowest-match");
            }
        }
        if expected.is_empty() && cut_by_window > 0 {
            out.probe("depth:window-excludes-every-match");
        }
        if through_link && w.link == Link::ReadTarget {
            out.probe("link:followed-directory-link");
        }
        if !cycles.is_empty() && w.link == Link::ReadTarget {
            out.probe("link:cycle");
        }
        if matches!(w.source, Source::Glob { rooted: true, .. }) && !matches!(w.depth, Depth::Unbounded) {
            out.probe("depth:rooted-glob-bounded");
        }
    }
    Ok(out)
}
