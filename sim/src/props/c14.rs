//! C14 — walk entries describe their file consistently. Invariants evaluated on every yielded item.

use std::path::Path;

use wax::Program;

use crate::env::{Env, HarnessError};
use crate::exec::base_text;
use crate::gen::{Gen, LinkMode, Tier};
use crate::model::Model;
use crate::oracle::*;
use crate::props::common::*;
use crate::rng::Rng;
use crate::scenario::*;

pub fn generate(rng: &mut Rng, tier: Tier, stats: &mut GenStats) -> Scenario {
    let mut g = Gen::new(rng, tier);
    // the invariants are per yielded entry, so faulty links (error items are not judged here) may
    // be present as well
    let links = match g.rng.below(20) {
        0..=10 => LinkMode::None,
        11..=16 => LinkMode::Safe,
        _ => LinkMode::All,
    };
    let tree = g.tree(links);
    let model = Model::from_tree(&tree).unwrap();
    let cwd = g.pick_dir(&model, 30);
    let nw = if g.rng.chance(1, 6) { if tier == Tier::Thorough && g.rng.chance(1, 3) { 3 } else { 2 } } else { 1 };
    let has_links = tree.iter().any(|n| matches!(n.kind, Kind::Link { .. }));
    let mut walkers = Vec::new();
    for _ in 0..nw {
        let base = g.pick_base(&model, 35, true);
        let link = if has_links && g.rng.chance(1, 2) { Link::ReadTarget } else { Link::ReadFile };
        let source = if g.rng.chance(1, 4) {
            Source::Path
        }
        else {
            let (mut expr, mut rooted) = ("**".to_string(), false);
            for _ in 0..6 {
                let (e, r) = g.walk_glob(&model, &base, if model.is_dir_node(&base) { 2 } else { 0 }, true, &mut stats.rejections);
                if link == Link::ReadTarget || !prefix_touches_link(&model, &base, &e, r) {
                    expr = e;
                    rooted = r;
                    break;
                }
                stats.restricted += 1;
            }
            Source::Glob { expr, rooted }
        };
        // depth behaviours (the window is judged by C15; here it only varies the configuration)
        let deepest = tree.iter().map(|n| depth_of(&n.path)).max().unwrap_or(1);
        let depth = match g.rng.below(8) {
            0 => Depth::Max(g.rng.range(0, deepest + 1)),
            1 => Depth::Min(g.rng.range(0, deepest)),
            2 => Depth::MinMax(g.rng.range(0, deepest), g.rng.range(0, deepest + 1)),
            _ => Depth::Unbounded,
        };
        walkers.push(Walker {
            source,
            base,
            spelling: g.spelling(),
            link,
            depth,
            order: g.order(false),
            victims: vec![],
            layers: vec![],
            taps: g.rng.chance(1, 4),
            erased: false,
            form: g.rng.below(8) as u8,
        });
        maybe_above(&mut g, walkers.last_mut().unwrap(), 8);
        maybe_empty_base(&mut g, walkers.last_mut().unwrap(), &cwd, 3);
    }
    let schedule = interleaving(g.rng, nw, tree.len());
    Scenario {
        prop: "C14".into(),
        seed: 0,
        tree,
        cwd,
        walkers,
        mutations: vec![],
        schedule,
        triggers: vec![],
        lazy: false,
    }
}

pub fn check(sc: &Scenario, env: &mut Env) -> Result<Outcome, HarnessError> {
    let mut out = Outcome::default();
    let log = run_main(sc, env, &mut out)?;
    panic_clause("C14", sc, &log, &mut out);
    for (wi, w) in sc.walkers.iter().enumerate() {
        let view = View::of(&log, wi, &sc.cwd);
        let glob = walk_glob(w, &env.root_text);
        let rooted = matches!(w.source, Source::Glob { rooted: true, .. });
        let given = base_text(w, &sc.cwd, &env.root_text);
        for y in &view.ys {
            let path = denorm(&y.path, &env.root_text);
            let root = denorm(&y.root, &env.root_text);
            let rel = denorm(&y.rel, &env.root_text);
            let item = format!("entry:{}", y.path);
            // joining the root segment with the relative segment gives the path
            if Path::new(&root).join(&rel) != Path::new(&path) {
                out.violate(
                    "C14",
                    "join",
                    wi,
                    format!("root {:?} joined with relative {:?} is not path {:?}", y.root, rel, y.path),
                    vec![item.clone()],
                );
            }
            // depth equals the number of components of the relative segment
            let comps = Path::new(&rel).components().count();
            if y.depth != comps {
                out.violate(
                    "C14",
                    "depth",
                    wi,
                    format!("depth {} but relative segment {:?} has {} components ({:?})", y.depth, y.rel, comps, w.source),
                    vec![item.clone()],
                );
            }
            // matched text is the relative segment and is matched by the glob; candidate path too
            if let Some(glob) = &glob {
                let m = denorm(&y.matched.clone().unwrap_or_default(), &env.root_text);
                let c = denorm(&y.cand.clone().unwrap_or_default(), &env.root_text);
                // (the matched text is text: for a name that is not valid UTF-8 it is the lossy
                // rendering of the relative segment)
                let rel_text = lossy(&rel);
                if m != rel_text || c != rel_text || !glob.is_match(rel_text.as_str()) {
                    out.violate(
                        "C14",
                        "matched",
                        wi,
                        format!(
                            "matched {:?}, candidate {:?}, relative {:?}, glob matches relative: {} ({:?})",
                            m,
                            c,
                            rel,
                            glob.is_match(rel_text.as_str()),
                            w.source
                        ),
                        vec![item.clone()],
                    );
                }
            }
            // root segment
            if rooted {
                if !root.is_empty() || Path::new(&rel) != Path::new(&path) {
                    out.violate(
                        "C14",
                        "root",
                        wi,
                        format!("rooted glob: root {:?} should be empty and relative {:?} the whole path {:?}", y.root, rel, y.path),
                        vec![item.clone()],
                    );
                }
            }
            else if Path::new(&root) != Path::new(&given) {
                out.violate(
                    "C14",
                    "root",
                    wi,
                    format!("root segment {:?} is not the directory given to the walk {:?}", root, given),
                    vec![item.clone()],
                );
            }
            if y.depth >= 2 {
                out.nontrivial = true;
            }
        }
        walker_probes(w, &mut out);
        if sc.tree.iter().any(|n| n.path.chars().any(|c| (0xF880..=0xF8FF).contains(&(c as u32)))) {
            out.probe("names:not-valid-utf8");
        }
        if rooted {
            out.probe("glob:rooted");
        }
        if !matches!(w.depth, Depth::Unbounded) {
            out.probe("depth:bounded");
        }
        if let Source::Glob { expr, rooted: false } = &w.source {
            match dot_kind(expr.split('/').next().unwrap_or("")) {
                Some("..") => out.probe("glob:dotdot-prefix"),
                Some(_) => out.probe("glob:dot-prefix"),
                None => {},
            }
        }
    }
    Ok(out)
}
