//! C20 — I/O faults during a walk are reported, isolated and never swallowed.
//! Faults are real kernel errors (run as uid nobody): mode-000 and r-- directories, dangling,
//! self-referential and ancestor-re-entering links, unreachable walk roots; plus (configuration D)
//! a mutator actor that changes the tree between two `next()` calls.

use std::collections::BTreeSet;

use wax::Program;

use crate::env::{Env, HarnessError};
use crate::gen::{Gen, LinkMode, Tier};
use crate::model::{Fault, Model, Visit};
use crate::oracle::*;
use crate::props::common::*;
use crate::props::stack::*;
use crate::rng::Rng;
use crate::scenario::*;

fn kinds_of(f: &Fault) -> &'static [&'static str] {
    match f {
        Fault::Unreadable | Fault::NoSearch | Fault::NoSearchLink => &["PermissionDenied"],
        Fault::Dangling => &["NotFound"],
        Fault::ELoop => &["FilesystemLoop", "Uncategorized", "Other"],
        Fault::Cycle { .. } => &["Other"],
        Fault::LinkToUnreadable => &["PermissionDenied"],
        Fault::RootMissing => &["NotFound", "NotADirectory"],
    }
}

fn fault_name(f: &Fault) -> &'static str {
    match f {
        Fault::Unreadable => "dir-000",
        Fault::NoSearch => "dir-in-r--",
        Fault::NoSearchLink => "link-in-r--",
        Fault::Dangling => "dangling-link",
        Fault::ELoop => "self-link",
        Fault::Cycle { .. } => "ancestor-link",
        Fault::LinkToUnreadable => "link-to-dir-000",
        Fault::RootMissing => "missing-root",
    }
}

/// Plants permission faults. Links are never placed inside, or pointed through, restricted
/// directories (keeps the fault kinds independent; a sampling restriction).
pub fn plant_modes(g: &mut Gen, tree: &mut Vec<Node>, keep_clear: &[String]) -> Vec<String> {
    let model = Model::from_tree(tree).unwrap();
    let link_touch: Vec<String> = tree
        .iter()
        .filter_map(|n| match &n.kind {
            Kind::Link { target } => {
                let t = match target.strip_prefix(R) {
                    Some(rest) => crate::exec::to_world(&format!("{}{}", R, rest), ""),
                    None => crate::exec::to_world(&format!("{}/{}/{}", R, parent(&n.path), target), ""),
                };
                Some((n.path.clone(), t))
            },
            _ => None,
        })
        .flat_map(|(p, t)| std::iter::once(p).chain(t))
        .collect();
    let dirs: Vec<String> = tree.iter().filter(|n| n.kind == Kind::Dir && !is_foreign(&n.path)).map(|n| n.path.clone()).collect();
    if dirs.is_empty() {
        return vec![];
    }
    let k = match g.rng.below(10) {
        0 => 0,
        1..=5 => 1,
        6..=8 => 2,
        _ => 3,
    };
    let mut planted = Vec::new();
    for _ in 0..k {
        let d = if g.rng.chance(6, 10) {
            // prefer directories that have content
            let c: Vec<&String> = dirs.iter().filter(|d| model.get(d).map_or(false, |i| !i.children.is_empty())).collect();
            if c.is_empty() { g.rng.pick(&dirs).clone() } else { (*g.rng.pick(&c)).clone() }
        }
        else {
            g.rng.pick(&dirs).clone()
        };
        if link_touch.iter().any(|p| is_under(p, &d)) || keep_clear.iter().any(|p| is_under(p, &d)) {
            continue;
        }
        let mode = if g.rng.chance(6, 10) { 0 } else { 0o444 };
        if let Some(n) = tree.iter_mut().find(|n| n.path == d) {
            if n.mode.is_none() {
                n.mode = Some(mode);
                planted.push(d);
            }
        }
    }
    planted
}

/// Configuration D: a fault-free start plus 1-3 mutator steps between `next()` calls.
fn generate_dynamic(g: &mut Gen, stats: &mut GenStats) -> Scenario {
    let tree = g.tree(LinkMode::None);
    let model = Model::from_tree(&tree).unwrap();
    let cwd = g.pick_dir(&model, 60);
    let base = g.pick_dir(&model, 60);
    let mut w = Walker {
        source: Source::Path,
        base: base.clone(),
        spelling: g.spelling(),
        link: Link::ReadFile,
        depth: Depth::Unbounded,
        order: g.order(false),
        victims: vec![],
        // a pass-through observer: its closure is where in-flight triggers fire
        layers: vec![Layer::Fe(vec![])],
        taps: g.rng.chance(1, 3),
        erased: false,
        form: g.rng.below(8) as u8,
    };
    if g.rng.chance(5, 10) {
        let (e, r) = g.walk_glob(&model, &base, 1, true, &mut stats.rejections);
        w.source = Source::Glob { expr: e, rooted: r };
    }
    // sometimes a real `filter_entry` layer below the observer: its discards act on whatever the
    // walker remembers about the entry while the tree moves
    if g.rng.chance(4, 10) {
        let mut table: Vec<(String, Verdict)> = Vec::new();
        for _ in 0..g.rng.range(1, 3) {
            let n = g.rng.pick(&tree);
            if !table.iter().any(|(p, _)| *p == n.path) {
                table.push((n.path.clone(), if g.rng.chance(2, 3) { Verdict::Tree } else { Verdict::File }));
            }
        }
        w.layers.insert(0, Layer::Fe(table));
    }
    // targets: anything that is not the working directory, the base, or above them
    let protected = |p: &str| is_under(&cwd, p) || is_under(&base, p);
    let targets: Vec<&Node> = tree.iter().filter(|n| !protected(&n.path) && !is_foreign(&n.path)).collect();
    let mut mutations = Vec::new();
    let mut schedule = Vec::new();
    let mut triggers: Vec<Trigger> = Vec::new();
    let k = g.rng.range(1, 3);
    for _ in 0..k {
        if targets.is_empty() {
            break;
        }
        // a transient fault: permissions revoked by an earlier mutation are restored
        if let Some(prev) = mutations.iter().find(|m: &&Mutation| matches!(m.op, MutOp::Chmod(0) | MutOp::Chmod(0o444))) {
            if g.rng.chance(1, 3) {
                let path = prev.path.clone();
                for _ in 0..g.rng.range(0, 3) {
                    schedule.push(Step::W(0));
                }
                schedule.push(Step::M(mutations.len()));
                mutations.push(Mutation { path, op: MutOp::Chmod(0o755) });
                continue;
            }
        }
        let t = *g.rng.pick(&targets);
        // no mutation is aimed at or through a path that an earlier mutation turned into a link
        // (the later operation would follow the link and alias another part of the tree; a
        // sampling restriction)
        if mutations.iter().any(|m: &Mutation| matches!(m.op, MutOp::Retarget(_)) && is_under(&t.path, &m.path)) {
            stats.restricted += 1;
            continue;
        }
        // ... nor inside a directory whose permissions another mutation revokes, or the other way
        // round (triggers fire in any order): the mutator is as unprivileged as the walk and could
        // not carry it out
        let blocked = mutations.iter().any(|m: &Mutation| {
            matches!(m.op, MutOp::Chmod(0) | MutOp::Chmod(0o444)) && is_below(&t.path, &m.path)
        });
        if blocked {
            stats.restricted += 1;
            continue;
        }
        let is_dir = t.kind == Kind::Dir;
        // (in-flight triggers may fire in any order, so the restriction is symmetric: no link is
        // made at or above the target of another mutation either)
        let covers_other = mutations.iter().any(|m: &Mutation| is_under(&m.path, &t.path));
        let op = match g.rng.below(if is_dir { 6 } else { 3 }) {
            2 | 3 if covers_other => MutOp::Remove,
            0 => MutOp::Remove,
            1 => MutOp::ToDir(g.rng.range(0, 2)),
            2 => MutOp::Retarget(if g.rng.chance(1, 2) { "nowhere".into() } else { ".".into() }),
            3 => MutOp::Chmod(if g.rng.chance(1, 2) { 0 } else { 0o444 }),
            4 => MutOp::Add(g.rng.range(1, 3)),
            _ => MutOp::ToFile,
        };
        if g.rng.chance(1, 2) {
            // in flight: the mutator strikes while a chosen entry is inside the stack (the closure
            // of the observer layer is shown it) — aimed at the target itself, its parent, a
            // sibling, or anywhere
            let sibs: Vec<&Node> = tree.iter().filter(|n| parent(&n.path) == parent(&t.path) && n.path != t.path).collect();
            let at = match g.rng.below(5) {
                0 | 1 => t.path.clone(),
                2 => parent(&t.path).to_string(),
                3 if !sibs.is_empty() => g.rng.pick(&sibs).path.clone(),
                _ => g.rng.pick(&tree).path.clone(),
            };
            triggers.push(Trigger {
                w: 0,
                path: at,
                mutation: mutations.len(),
            });
        }
        else {
            let steps = match g.rng.below(20) {
                0..=11 => g.rng.range(0, 2),
                12..=16 => g.rng.range(0, 6),
                _ => g.rng.range(0, tree.len() + 2),
            };
            for _ in 0..steps {
                schedule.push(Step::W(0));
            }
            schedule.push(Step::M(mutations.len()));
        }
        mutations.push(Mutation {
            path: t.path.clone(),
            op,
        });
    }
    Scenario {
        prop: "C20".into(),
        seed: 0,
        tree,
        cwd,
        walkers: vec![w],
        mutations,
        schedule,
        triggers,
        lazy: false,
    }
}

pub fn generate(rng: &mut Rng, tier: Tier, stats: &mut GenStats) -> Scenario {
    let mut g = Gen::new(rng, tier);
    g.spine_odds = 15;
    if g.rng.chance(3, 10) {
        return generate_dynamic(&mut g, stats);
    }
    if g.rng.chance(1, 7) {
        return crate::props::c20fd::generate(&mut g, stats);
    }
    let links = if g.rng.chance(1, 2) { LinkMode::All } else { LinkMode::None };
    let mut tree = g.tree(links);
    let model0 = Model::from_tree(&tree).unwrap();
    let cwd = g.pick_dir(&model0, 50);
    // (the base may be a link to a directory: a walk root is followed whatever the policy)
    g.link_base_pct = 12;
    let mut base = g.pick_base(&model0, 55, true);
    // ... or, rarely, a link whose target is missing: the walk cannot start, and says so
    if links == LinkMode::All && g.rng.chance(3, 100) {
        let plain = Gen::plain_dirs(&model0);
        let dangling: Vec<String> = tree
            .iter()
            .filter(|n| matches!(n.kind, Kind::Link { .. }) && plain.contains(&parent(&n.path).to_string()))
            .filter(|n| matches!(model0.resolve(&n.path, true), Err(crate::model::Errno::NoEnt)))
            .map(|n| n.path.clone())
            .collect();
        if !dangling.is_empty() {
            base = g.rng.pick(&dangling).clone();
        }
    }
    let base_target = model0.resolve(&base, true).unwrap_or_else(|_| base.clone());
    // a cluster of faults in one directory (several consecutive error items, an error as the very
    // first or very last item of a listing)
    let mut cluster = false;
    if g.rng.chance(7, 100) {
        let dirs = Gen::plain_dirs(&model0);
        let d = g.rng.pick(&dirs).clone();
        // (sometimes a long run: dozens of consecutive error items)
        let k = if g.rng.chance(15, 100) { g.rng.range(33, 80) } else { g.rng.range(3, 5) };
        for i in 0..k {
            let path = join(&d, &format!("f{}", i));
            let node = match g.rng.below(4) {
                0 => Node { path, kind: Kind::Dir, mode: Some(0) },
                1 => Node { kind: Kind::Link { target: format!("f{}", i) }, path, mode: None },
                _ => Node { path, kind: Kind::Link { target: "nowhere".into() }, mode: None },
            };
            tree.push(node);
        }
        cluster = true;
    }
    // Twin directories with a fault listed first in some of them, under a glob whose middle
    // component is a literal: what the walk learns in one twin must not be carried into the next
    // across an error item.
    let mut twins: Option<String> = None;
    if links == LinkMode::All && model0.is_dir_node(&base) && g.rng.chance(5, 100) {
        let lit = g.names[0];
        let tw: Vec<String> = (0..g.rng.range(2, 4)).map(|i| join(&base, &format!("t{}", i))).collect();
        if !tw.iter().any(|d| tree.iter().any(|n| n.path == *d)) && tw.iter().all(|d| d.len() < 2500) {
            for (i, d) in tw.iter().enumerate() {
                tree.push(Node { path: d.clone(), kind: Kind::Dir, mode: None });
                tree.push(Node { path: join(d, lit), kind: Kind::Dir, mode: None });
                tree.push(Node { path: join(&join(d, lit), "x.txt"), kind: Kind::File, mode: None });
                if i > 0 || g.rng.chance(1, 3) {
                    // (`!` sorts before every other name of the pool)
                    let target = if g.rng.chance(1, 2) { "nowhere".to_string() } else { "..".to_string() };
                    tree.push(Node { path: join(d, "!first"), kind: Kind::Link { target }, mode: None });
                }
            }
            twins = Some(format!("*/{}/{}", wax::escape(&lossy(lit)), if g.rng.chance(1, 2) { "*" } else { "**" }));
        }
    }
    // (under a base that is a link every path is spelled through that link: permission faults are
    // kept out of such scenarios, as they are kept out from beneath links in general, §10.3)
    if model0.is_dir_node(&base) {
        plant_modes(&mut g, &mut tree, &[cwd.clone(), base.clone()]);
    }
    let _ = base_target;
    // A link that points AT a directory nobody may open (mode 000): the one way a link and a
    // permission fault meet here (links inside or through restricted directories stay excluded).
    let mut link_to_000 = false;
    if links == LinkMode::All && model0.is_dir_node(&base) && g.rng.chance(6, 100) {
        let m = Model::from_tree(&tree).unwrap();
        let plain = Gen::plain_dirs(&m);
        let locked: Vec<String> = tree
            .iter()
            .filter(|n| n.kind == Kind::Dir && n.mode == Some(0) && plain.contains(&parent(&n.path).to_string()))
            .map(|n| n.path.clone())
            .collect();
        let homes: Vec<String> = plain.iter().filter(|d| is_under(d, &base)).cloned().collect();
        if !locked.is_empty() && !homes.is_empty() {
            let u = g.rng.pick(&locked).clone();
            let home = g.rng.pick(&homes).clone();
            let nm = *g.rng.pick(&g.names.clone());
            let path = join(&home, nm);
            if !tree.iter().any(|n| n.path == path) && path.len() < 2500 {
                let target = if g.rng.chance(1, 2) { format!("{}/{}", R, u) } else { Gen::rel_target(&home, &u) };
                let at = tree.iter().position(|n| is_foreign(&n.path)).unwrap_or(tree.len());
                tree.insert(at, Node { path, kind: Kind::Link { target }, mode: None });
                link_to_000 = true;
            }
        }
    }
    let model = Model::from_tree(&tree).unwrap();
    let has_links = tree.iter().any(|n| matches!(n.kind, Kind::Link { .. }));
    let link = if has_links && (cluster || link_to_000 || g.rng.chance(6, 10)) { Link::ReadTarget } else { Link::ReadFile };
    let mut w = Walker {
        source: Source::Path,
        base,
        spelling: g.spelling(),
        link,
        depth: Depth::Unbounded,
        order: Order::Lex,
        victims: vec![],
        layers: vec![Layer::Fe(vec![])],
        taps: g.rng.chance(1, 2),
        erased: false,
        form: g.rng.below(8) as u8,
    };
    if g.rng.chance(6, 10) {
        w.source = Source::Glob {
            expr: "**".into(),
            rooted: false,
        };
        for _ in 0..8 {
            let (e, r) = g.walk_glob(&model, &w.base, 1, true, &mut stats.rejections);
            let cand = Walker {
                source: Source::Glob { expr: e.clone(), rooted: r },
                ..w.clone()
            };
            if prefix_touches_link(&model, &w.base, &e, r) || cycle_above_prefix(&model, &cand) {
                stats.restricted += 1;
                continue;
            }
            w = cand;
            break;
        }
    }
    if let Some(expr) = &twins {
        w.source = Source::Glob { expr: expr.clone(), rooted: false };
        w.link = Link::ReadTarget;
    }
    let mut victims: Vec<String> = Vec::new();
    if g.rng.chance(6, 10) {
        w.erased = g.rng.chance(1, 3);
        let deep = w.erased && g.rng.chance(1, 4);
        w.layers = layers(
            &mut g,
            &model,
            &w,
            &StackOpts {
                max_layers: if deep { 7 } else { 3 },
                observer: true,
            },
            stats,
            &mut victims,
        );
    }
    // faults are victims too: steer them to the first / last position among their siblings
    let space = Space::of(&w, DUMMY_ROOT);
    for v in model.traverse(&space.start, w.link, None) {
        if v.fault.is_some() {
            victims.push(v.path.clone());
        }
    }
    w.victims = victims;
    w.order = g.order(true);
    if twins.is_some() && g.rng.chance(2, 3) {
        // faults first among their siblings
        w.order = if g.rng.chance(1, 2) { Order::Lex } else { Order::VictimFirst(g.rng.next_u64()) };
    }
    let deepest = tree.iter().map(|n| depth_of(&n.path)).max().unwrap_or(1);
    match g.rng.below(if twins.is_some() { 200 } else { 100 }) {
        0..=14 => w.depth = Depth::Max(g.rng.range(1, deepest + 1)),
        // a minimum depth hides entries, never errors: a fault above the minimum is still reported
        15..=24 => w.depth = Depth::Min(g.rng.range(1, deepest.max(2) - 1)),
        25..=29 => w.depth = Depth::MinMax(g.rng.range(1, deepest), g.rng.range(1, deepest + 1)),
        _ => {},
    }
    // Faults hit by one walk must not affect another: sometimes a second, independent walk (often
    // over a healthy part of the tree) is advanced alternately.
    let mut walkers = vec![w];
    let mut schedule = vec![];
    let mut lazy = false;
    if g.rng.chance(1, 8) {
        let dirs = Gen::plain_dirs(&model);
        let mut w2 = walkers[0].clone();
        w2.base = g.rng.pick(&dirs).clone();
        w2.source = if g.rng.chance(1, 2) { Source::Path } else { Source::Glob { expr: "**".into(), rooted: false } };
        w2.layers = vec![Layer::Fe(vec![])];
        w2.depth = Depth::Unbounded;
        w2.order = g.order(false);
        w2.spelling = g.spelling();
        w2.erased = false;
        walkers.push(w2);
        schedule = interleaving(g.rng, 2, tree.len());
        lazy = g.rng.chance(1, 3);
    }
    Scenario {
        prop: "C20".into(),
        seed: 0,
        tree,
        cwd,
        walkers,
        mutations: vec![],
        schedule,
        triggers: vec![],
        lazy,
    }
}

/// The healed counterfactual: the same tree with every permission fault repaired.
fn healed(sc: &Scenario) -> Model {
    let tree: Vec<Node> = sc
        .tree
        .iter()
        .map(|n| Node {
            mode: None,
            ..n.clone()
        })
        .collect();
    Model::from_tree(&tree).unwrap()
}

/// The tree specification after applying a mutation (the simulator's model of what it did).
fn apply_mutation(tree: &[Node], m: &Mutation, serial: usize) -> Vec<Node> {
    let mut t: Vec<Node> = tree.to_vec();
    let drop_below = |t: &mut Vec<Node>, p: &str, keep_self: bool| {
        t.retain(|n| !(is_below(&n.path, p) || (!keep_self && n.path == p)));
    };
    let mut exists = t.iter().any(|n| n.path == m.path);
    // creating operations create the node if only its parent directory is (still) there
    if !exists
        && matches!(m.op, MutOp::ToFile | MutOp::ToDir(_) | MutOp::Retarget(_))
        && (parent(&m.path).is_empty() || t.iter().any(|n| n.path == parent(&m.path) && n.kind == Kind::Dir))
    {
        t.push(Node { path: m.path.clone(), kind: Kind::File, mode: None });
        exists = true;
    }
    match &m.op {
        MutOp::FdLimit(_) | MutOp::FdRestore => {},
        MutOp::Remove => drop_below(&mut t, &m.path, false),
        MutOp::Chmod(mode) => {
            if let Some(n) = t.iter_mut().find(|n| n.path == m.path) {
                n.mode = Some(*mode);
            }
        },
        MutOp::ToFile => {
            drop_below(&mut t, &m.path, true);
            if let Some(n) = t.iter_mut().find(|n| n.path == m.path) {
                n.kind = Kind::File;
                n.mode = None;
            }
        },
        MutOp::ToDir(k) => {
            drop_below(&mut t, &m.path, true);
            if let Some(n) = t.iter_mut().find(|n| n.path == m.path) {
                n.kind = Kind::Dir;
                n.mode = None;
            }
            if exists {
                for i in 0..*k {
                    t.push(Node { path: join(&m.path, &format!("m{}_{}", serial, i)), kind: Kind::File, mode: None });
                }
            }
        },
        MutOp::Add(k) => {
            if t.iter().any(|n| n.path == m.path && n.kind == Kind::Dir) {
                for i in 0..*k {
                    t.push(Node { path: join(&m.path, &format!("m{}_{}", serial, i)), kind: Kind::File, mode: None });
                }
            }
        },
        MutOp::Retarget(target) => {
            drop_below(&mut t, &m.path, true);
            if let Some(n) = t.iter_mut().find(|n| n.path == m.path) {
                n.kind = Kind::Link { target: target.clone() };
                n.mode = None;
            }
        },
    }
    t
}

/// Configuration D. Outside every tainted subtree the walk must be exact; inside, the relaxation
/// is deliberately narrow: a yielded path must have existed before or after a mutation and match,
/// an error must name a path inside a tainted subtree, nothing is produced twice, and the walk
/// terminates within the budget.
fn dynamic_check(sc: &Scenario, env: &mut Env) -> Result<Outcome, HarnessError> {
    let mut out = Outcome::default();
    let log = run_main(sc, env, &mut out)?;
    panic_clause("C20", sc, &log, &mut out);
    let wi = 0;
    let w = &sc.walkers[wi];
    let view = View::of(&log, wi, &sc.cwd);
    if view.panic.is_some() {
        return Ok(out);
    }
    // A mutation the unprivileged mutator could not carry out (its target lies in a directory whose
    // permissions an earlier mutation revoked) may have been carried out in part; no model of such
    // a run is offered, so nothing is judged (not sampled on purpose, see `generate_dynamic`).
    if log.iter().any(|e| matches!(e, crate::exec::Ev::Mut { result, .. } if result == "PermissionDenied")) {
        out.probe("mutation:could-not-be-carried-out-run-not-judged");
        return Ok(out);
    }
    let glob = walk_glob(w, &env.root_text);
    let space = Space::of(w, &env.root_text);
    let matches = |p: &str| glob.as_ref().map_or(true, |g| g.is_match(space.rel(p).as_str()));
    // model states: before, and after each applied mutation (in schedule order)
    let applied: Vec<usize> = log.iter().filter_map(|e| match e { crate::exec::Ev::Mut { i, .. } => Some(*i), _ => None }).collect();
    let mut states: Vec<Vec<Node>> = vec![sc.tree.clone()];
    for mi in &applied {
        let next = apply_mutation(states.last().unwrap(), &sc.mutations[*mi], *mi);
        states.push(next);
    }
    let taints: Vec<&str> = applied.iter().map(|mi| sc.mutations[*mi].path.as_str()).collect();
    let tainted = |p: &str| {
        applied.iter().any(|mi| {
            let m = &sc.mutations[*mi];
            match m.op {
                // adding entries taints only the new names
                MutOp::Add(_) => is_below(p, &m.path) && name(p).starts_with(&format!("m{}_", mi)) && parent(p) == m.path,
                _ => is_under(p, &m.path),
            }
        })
    };
    let pre = Model::from_tree(&states[0]).map_err(HarnessError)?;
    let pre_visits = pre.traverse(&space.start, w.link, None);
    // "existed before or after a mutation": the path denotes something in some state of the tree,
    // resolved the way the kernel resolves it (a directory that was replaced by a link after it
    // had been listed is still opened by path, which is the environment's race, not wax's).
    let models: Vec<Model> = states.iter().filter_map(|st| Model::from_tree(st).ok()).collect();
    let existed = |p: &str| models.iter().any(|m| m.resolve(p, false).is_ok());
    // isolated: everything outside the tainted regions is exact
    // verdicts of `filter_entry` layers (by path): discarded entries and everything beneath a
    // directory discarded as a tree are not expected
    // (a verdict only exists for an entry the closure was actually shown: a glob walk that starts
    // at its prefix directory never shows the directories above it)
    let verdict_of = |p: &str| -> Verdict {
        view.saws
            .iter()
            .filter(|s| s.wp.as_deref() == Some(p))
            .map(|s| s.verdict)
            .max()
            .unwrap_or(Verdict::Keep)
    };
    let dir_nodes: BTreeSet<&str> = pre_visits.iter().filter(|v| v.is_dir).map(|v| v.path.as_str()).collect();
    let discarded = |p: &str| -> bool {
        if verdict_of(p) != Verdict::Keep {
            return true;
        }
        let mut q = p;
        while !q.is_empty() {
            q = parent(q);
            if dir_nodes.contains(q) && verdict_of(q) == Verdict::Tree && is_under(q, &space.start) {
                return true;
            }
        }
        false
    };
    let mut expected: Vec<String> = Vec::new();
    let mut base_may = false;
    for v in &pre_visits {
        if tainted(&v.path) {
            continue;
        }
        if discarded(&v.path) {
            // (beneath a tainted tree-discarded directory everything is tainted anyway)
            continue;
        }
        let m = matches(&v.path);
        if glob.is_some() && v.path == space.start && space.start_is_base {
            base_may = m;
            continue;
        }
        if m {
            expected.push(v.path.clone());
        }
    }
    expected.sort();
    let mut outside: Vec<String> = Vec::new();
    let mut inside: Vec<String> = Vec::new();
    for y in &view.ys {
        let wp = y.wp.clone().unwrap_or_else(|| format!("<outside:{}>", y.path));
        if tainted(&wp) {
            inside.push(wp);
        }
        else {
            outside.push(wp);
        }
    }
    outside.sort();
    if base_may {
        if let Some(i) = outside.iter().position(|p| *p == space.start) {
            outside.remove(i);
        }
    }
    // a walk root inside a tainted region (glob prefix) may be gone altogether
    let root_tainted = view.ys.is_empty() && view.es.len() <= 1 && taints.iter().any(|t| pre_visits.iter().any(|v| is_under(&v.path, t)));
    let (missing, extra) = diff_sorted(&outside, &expected);
    if (!missing.is_empty() && !(root_tainted && outside.is_empty())) || !extra.is_empty() {
        let mut items: Vec<String> = missing.iter().map(|m| format!("missing:{}", m)).collect();
        items.extend(extra.iter().map(|m| format!("extra:{}", m)));
        out.violate(
            "C20",
            "isolated",
            wi,
            format!(
                "mutations {:?} (applied {:?}) while {:?} walked base {:?}: entries outside the mutated subtrees differ from the fault-free walk; missing {:?} extra {:?}",
                sc.mutations, applied, w.source, w.base, missing, extra
            ),
            items,
        );
    }
    // inside: only paths that existed at some time, matching, at most once
    inside.sort();
    for (i, p) in inside.iter().enumerate() {
        if i > 0 && inside[i - 1] == *p {
            out.violate("C20", "isolated", wi, format!("{:?} (inside a mutated subtree) yielded twice", p), vec![format!("dup:{}", p)]);
        }
        if !existed(p) || !matches(p) {
            out.violate(
                "C20",
                "isolated",
                wi,
                format!("{:?} yielded from inside a mutated subtree although it never existed there or does not match", p),
                vec![format!("extra:{}", p)],
            );
        }
    }
    // errors name a path inside a mutated subtree
    for e in &view.es {
        let wp = e.wp.clone().unwrap_or_default();
        // a walk root that never existed may be reported (as in the static configuration)
        let root_gone = view.ys.is_empty()
            && view.es.len() == 1
            && expected.is_empty()
            && (e.kind == "NotFound" || e.kind == "NotADirectory")
            && !pre.is_dir_node(&wp);
        if root_gone {
            out.fire("missing-root");
            continue;
        }
        if !taints.iter().any(|t| is_under(&wp, t)) {
            out.violate(
                "C20",
                "isolated",
                wi,
                format!("error item names {:?} (kind {}), outside every mutated subtree {:?}", e.path, e.kind, taints),
                vec![format!("error:{}", wp)],
            );
        }
        out.fire(&format!("in-flight:{}", e.kind));
    }
    if view.budget || !view.ended {
        out.violate("C20", "isolated", wi, "the walk did not terminate within the budget after in-flight mutations".into(), vec!["no-termination".into()]);
    }
    // reach: where the mutation struck relative to the walker
    for (k, mi) in applied.iter().enumerate() {
        let m = &sc.mutations[*mi];
        let seq = log.iter().position(|e| matches!(e, crate::exec::Ev::Mut { i, .. } if i == mi)).unwrap_or(0);
        let target_seen_before = view.ys.iter().any(|y| y.seq < seq && y.wp.as_deref() == Some(m.path.as_str()));
        let sibling_before = view.ys.iter().any(|y| y.seq < seq && y.wp.as_deref().map_or(false, |p| parent(p) == parent(&m.path) && p != m.path));
        let inside_before = view.ys.iter().any(|y| y.seq < seq && y.wp.as_deref().map_or(false, |p| is_below(p, &m.path)));
        let anything_after = view.ys.iter().any(|y| y.seq > seq) || view.es.iter().any(|e| e.seq > seq);
        let pos = if !anything_after {
            "after-the-walk-ended"
        }
        else if inside_before {
            "walker-inside-target"
        }
        else if target_seen_before {
            "target-just-yielded-or-passed"
        }
        else if sibling_before {
            "parent-being-listed"
        }
        else {
            "ahead-of-walker"
        };
        out.probe(format!("mutation:{}:{}", match m.op { MutOp::Remove => "remove", MutOp::Chmod(0) => "chmod-000", MutOp::Chmod(_) => "chmod-r--", MutOp::ToFile => "dir-to-file", MutOp::ToDir(_) => "to-dir", MutOp::Add(_) => "add", MutOp::Retarget(_) => "to-link", MutOp::FdLimit(_) | MutOp::FdRestore => "descriptor-limit" }, pos));
        let _ = k;
    }
    let visited_taint = view.ys.iter().any(|y| y.wp.as_deref().map_or(false, |p| tainted(p))) || !view.es.is_empty();
    if visited_taint || !missing.is_empty() {
        out.nontrivial = true;
    }
    if !view.es.is_empty() {
        out.fire("in-flight-fault-produced-error");
    }
    if view.ys.iter().any(|y| y.wp.as_deref().map_or(false, |p| tainted(p) && !pre_visits.iter().any(|v| v.path == p))) {
        out.fire("in-flight-new-entry-seen");
    }
    walker_probes(w, &mut out);
    out.probe("config:dynamic");
    for t in &sc.triggers {
        if applied.contains(&t.mutation) {
            out.probe("mutation:fired-in-flight-from-a-filter-closure");
        }
    }
    Ok(out)
}

pub fn check(sc: &Scenario, env: &mut Env) -> Result<Outcome, HarnessError> {
    if crate::props::c20fd::is_fd_scenario(sc) {
        return crate::props::c20fd::check(sc, env);
    }
    if !sc.mutations.is_empty() {
        return dynamic_check(sc, env);
    }
    let mut out = Outcome::default();
    let log = run_main(sc, env, &mut out)?;
    panic_clause("C20", sc, &log, &mut out);
    out.probe("config:static");
    if sc.walkers.len() > 1 {
        out.probe("walkers:two-interleaved-over-a-faulty-tree");
    }
    let model = model_of(sc)?;
    let heal = healed(sc);
    for (wi, w) in sc.walkers.iter().enumerate() {
        let s = View::of(&log, wi, &sc.cwd);
        if s.panic.is_some() {
            continue;
        }
        let u = run_underlying(sc, env, wi)?;
        let uv = View::of(&u.log, wi, &sc.cwd);
        let glob = walk_glob(w, &env.root_text);
        let space = Space::of(w, &env.root_text);
        // a maximum depth: entries beyond it do not exist for the walk, and a directory exactly at
        // it is yielded but never opened, so its fault never fires
        let shift = crate::exec::depth_shift(w, &env.root_text);
        let (min, max) = w.depth.shifted(shift).window();
        let clip = |vs: Vec<Visit>| -> Vec<Visit> {
            let Some(max) = max
            else {
                return vs;
            };
            vs.into_iter()
                .filter_map(|mut v| {
                    let d = std::path::Path::new(&space.rel(&v.path)).components().count();
                    if d > max {
                        return None;
                    }
                    if d == max && v.is_dir && matches!(v.fault, Some(Fault::Unreadable) | Some(Fault::NoSearch)) {
                        v.fault = None;
                    }
                    Some(v)
                })
                .collect()
        };
        let visits = clip(model.traverse(&space.start, w.link, None));
        let hvisits = clip(heal.traverse(&space.start, w.link, None));
        if max.is_some() {
            out.probe("depth:max-with-faults");
        }
        let matches = |p: &str| glob.as_ref().map_or(true, |g| g.is_match(space.rel(p).as_str()));
        if min > 0 {
            out.probe("depth:min-with-faults");
        }
        source_clauses(sc, wi, w, &uv, &visits, &hvisits, &space, glob.is_some(), &matches, &model, min, &mut out);
        // "isolated": a directory whose own name fails its glob component is discarded by the glob
        // walk as a tree (C13 has nothing beneath it produced downstream); a fault beneath it is
        // none of the walk's business, and an error item naming a path beneath it is a fault
        // reported for something the walk had no reason to touch. (The directory's own read error
        // stays MAY: walkdir opens a directory when it yields it.)
        if let Source::Glob { expr, rooted: false } = &w.source {
            let comps = leading_components(expr);
            if !comps.is_empty() && !expr.starts_with('.') && !expr.starts_with('$') {
                let hopeless: Vec<&str> = visits
                    .iter()
                    .filter(|v| v.is_dir && is_below(&v.path, &w.base))
                    .filter(|v| {
                        let names: Vec<&str> = rel_to(&v.path, &w.base).split('/').collect();
                        let j = names.len();
                        // (with a minimum depth, directories above it are never shown to the glob
                        // walk, which therefore cannot discard them)
                        j >= min && j <= comps.len() && !comps[j - 1].is_match(lossy(names[j - 1]).as_str())
                    })
                    .map(|v| v.path.as_str())
                    .collect();
                for e in &uv.es {
                    if let Some(wp) = e.wp.as_deref() {
                        if let Some(h) = hopeless.iter().find(|h| is_below(wp, h)) {
                            out.violate(
                                "C20",
                                "err-sound",
                                wi,
                                format!(
                                    "glob {:?}: directory {:?} cannot match its component and is not to be read, yet an error item names {:?} beneath it (kind {})",
                                    expr, h, wp, e.kind
                                ),
                                vec![format!("error:{}", wp)],
                            );
                        }
                    }
                }
                if hopeless.iter().any(|h| visits.iter().any(|v| v.fault.is_some() && is_below(&v.path, h))) {
                    out.probe("fault:beneath-a-directory-its-glob-component-rejects");
                }
            }
        }
        // the stack over it
        let real_layers = w.layers.len() > 1 || !matches!(w.layers.first(), Some(Layer::Fe(t)) if t.is_empty());
        if real_layers {
            let ex = expect(&w.layers, &u, &env.root_text)?;
            let actual: Vec<String> = s.ys.iter().map(|y| y.wp.clone().unwrap_or_default()).collect();
            if actual != ex.yields {
                let (mut a, mut e) = (actual.clone(), ex.yields.clone());
                a.sort();
                e.sort();
                let (missing, extra) = diff_sorted(&a, &e);
                let mut items: Vec<String> = missing.iter().map(|m| format!("missing:{}", m)).collect();
                items.extend(extra.iter().map(|m| format!("extra:{}", m)));
                if items.is_empty() {
                    items.push("order".into());
                }
                out.violate(
                    "C20",
                    "ok-exact",
                    wi,
                    format!(
                        "stack {:?} over a faulty tree: yielded entries differ from those the filters keep of the underlying walk; missing {:?} extra {:?}",
                        w.layers, missing, extra
                    ),
                    items,
                );
            }
            pass_through(wi, w, &s, &uv, &u, &ex, &mut out);
            discard_probes(&w.layers, &u, &ex, &mut out);
        }
        if !uv.es.is_empty() || !s.es.is_empty() {
            out.nontrivial = true;
        }
        walker_probes(w, &mut out);
    }
    Ok(out)
}

#[allow(clippy::too_many_arguments)]
fn source_clauses(
    _sc: &Scenario,
    wi: usize,
    w: &Walker,
    uv: &View,
    visits: &[Visit],
    hvisits: &[Visit],
    space: &Space,
    is_glob: bool,
    matches: &dyn Fn(&str) -> bool,
    model: &Model,
    min: usize,
    out: &mut Outcome,
) {
    // The directory the walk starts in (the invariant prefix of a glob) may itself lie beneath a
    // restricted directory: then the walk cannot start and its only item is that error.
    let restricted_above = |wp: &str| {
        let mut p = wp;
        while !p.is_empty() {
            p = parent(p);
            if model.get(p).map_or(false, |i| i.mode.is_some()) {
                return true;
            }
        }
        false
    };
    let unreachable_root = is_glob
        && uv.ys.is_empty()
        && uv.es.len() == 1
        && uv.es[0].kind == "PermissionDenied"
        && uv.es[0].wp.as_deref().map_or(false, restricted_above);
    // ok-exact: exactly what a fault-free walk of the readable part of the tree would yield
    let mut expected: Vec<String> = Vec::new();
    let mut base_may = false;
    for v in visits {
        if unreachable_root {
            break;
        }
        if v.fault.as_ref().map_or(false, |f| !f.yields_entry()) {
            continue;
        }
        let m = matches(&v.path);
        // (entries above a minimum depth are not yielded; their errors are)
        let deep_enough = std::path::Path::new(&space.rel(&v.path)).components().count() >= min;
        if is_glob && v.path == space.start && space.start_is_base {
            base_may = m && deep_enough;
            continue;
        }
        if m && deep_enough {
            expected.push(v.path.clone());
        }
    }
    expected.sort();
    let mut actual = uv.yielded_sorted();
    if base_may {
        if let Some(i) = actual.iter().position(|p| *p == space.start) {
            actual.remove(i);
        }
    }
    let (missing, extra) = diff_sorted(&actual, &expected);
    if !missing.is_empty() || !extra.is_empty() {
        let mut items: Vec<String> = missing.iter().map(|m| format!("missing:{}", m)).collect();
        items.extend(extra.iter().map(|m| format!("extra:{}", m)));
        // name "stops at the first error" as such
        let first_err = uv.es.first().map(|e| e.seq);
        let stopped = extra.is_empty()
            && first_err.map_or(false, |fe| !uv.ys.iter().any(|y| y.seq > fe) && uv.es.iter().all(|e| e.seq <= fe));
        out.violate(
            "C20",
            if stopped { "carry-on" } else { "ok-exact" },
            wi,
            format!(
                "{:?} base {:?} {:?}: entries yielded from a faulty tree differ from a fault-free walk of its readable part; missing {:?} extra {:?}{}",
                w.source,
                w.base,
                w.link,
                missing,
                extra,
                if stopped { " (nothing was produced after the first error)" } else { "" }
            ),
            items,
        );
    }
    // err-sound: every error names a planted fault (or the unreachable walk root), once, right kind
    let faults: Vec<&Visit> = visits.iter().filter(|v| v.fault.is_some()).collect();
    let mut reported: BTreeSet<String> = BTreeSet::new();
    let mut pathless = 0usize;
    for e in &uv.es {
        // An error without a path: what walkdir makes of a link to a directory that cannot be
        // opened. It is attributed to such a fault not yet accounted for (there is nothing else to
        // go by) — and it does not *name the offending path*, which is reported once per walker
        // (known finding F12: the path is lost inside walkdir, the crate cannot restore it).
        if e.path.is_none() {
            // (which of several such links it belongs to cannot be told: they are counted)
            pathless += 1;
            let such: Vec<&&Visit> = faults.iter().filter(|v| matches!(v.fault, Some(Fault::LinkToUnreadable))).collect();
            match such.first().filter(|_| pathless <= such.len()) {
                Some(v) => {
                    if e.kind != "PermissionDenied" || e.cycle {
                        out.violate("C20", "err-sound", wi, format!("path-less error of kind {} (cycle: {})", e.kind, e.cycle), vec![format!("error-kind:{}", v.path)]);
                    }
                    out.violate(
                        "C20",
                        "err-sound",
                        wi,
                        format!("the error for the link {:?} to a directory that cannot be opened names no path: {:?}", v.path, e.display),
                        vec![format!("pathless:{}", v.path)],
                    );
                    out.fire(fault_name(v.fault.as_ref().unwrap()));
                },
                None => out.violate("C20", "err-sound", wi, format!("an error item without a path that no planted fault accounts for: {:?}", e.display), vec!["error:<no path>".to_string()]),
            }
            continue;
        }
        let wp = e.wp.clone().unwrap_or_default();
        match faults.iter().find(|v| v.path == wp) {
            Some(v) => {
                let f = v.fault.as_ref().unwrap();
                let cycle = matches!(f, Fault::Cycle { .. });
                if !reported.insert(wp.clone()) {
                    out.violate("C20", "err-sound", wi, format!("fault at {:?} reported more than once", wp), vec![format!("dup-error:{}", wp)]);
                }
                if !kinds_of(f).contains(&e.kind.as_str()) || e.cycle != cycle {
                    out.violate(
                        "C20",
                        "err-sound",
                        wi,
                        format!("{} at {:?} reported as kind {} (cycle: {}): {:?}", fault_name(f), wp, e.kind, e.cycle, e.display),
                        vec![format!("error-kind:{}", wp)],
                    );
                }
                // a path walk starts at the base, so the depth of an error is the number of
                // components of the offending path below the base
                if !is_glob && is_under(&wp, &space.start) && e.depth != depth_of(rel_to(&wp, &space.start)) {
                    out.violate(
                        "C20",
                        "err-sound",
                        wi,
                        format!("error for {:?} reports depth {} but the path lies {} levels below the walked directory", wp, e.depth, depth_of(rel_to(&wp, &space.start))),
                        vec![format!("error-depth:{}", wp)],
                    );
                }
                // a glob walk starts at the directory its invariant prefix names: "the depth at which
                // the error occurred from the root directory of the traversal" (which is why it may
                // differ from `Entry::depth`). That directory is observed, not computed: it is the
                // first item the closure-free feed shows (runs with taps and without a minimum depth).
                if is_glob && min == 0 {
                    if let Some(root) = uv.taps.iter().find(|t| t.pos == 0).and_then(|t| t.wp.clone()) {
                        if is_under(&wp, &root) && e.depth != depth_of(rel_to(&wp, &root)) {
                            out.violate(
                                "C20",
                                "err-sound",
                                wi,
                                format!(
                                    "error for {:?} reports depth {} but the path lies {} levels below the directory the traversal started in ({:?})",
                                    wp, e.depth, depth_of(rel_to(&wp, &root)), root
                                ),
                                vec![format!("error-depth:{}", wp)],
                            );
                        }
                        out.probe("error-depth:judged-against-the-observed-traversal-root");
                    }
                }
                out.fire(fault_name(f));
            },
            None => {
                let lonely = uv.ys.is_empty() && uv.es.len() == 1;
                let root_gone = lonely
                    && expected.is_empty()
                    && (e.kind == "NotFound" || e.kind == "NotADirectory")
                    && !model.is_dir_node(&wp);
                if unreachable_root {
                    // accounts for every restricted directory above it
                    for v in faults.iter().filter(|v| is_below(&wp, &v.path)) {
                        reported.insert(v.path.clone());
                    }
                    out.fire("unreachable-walk-root");
                }
                else if root_gone {
                    out.fire("missing-root");
                }
                else {
                    out.violate(
                        "C20",
                        "err-sound",
                        wi,
                        format!("error item names {:?} (kind {}), which is not a planted fault: {:?}", e.path, e.kind, e.display),
                        vec![format!("error:{}", wp)],
                    );
                }
            },
        }
    }
    // err-complete: a fault is reported whenever the walk was obliged to touch it
    let mut due_pathless: Vec<String> = Vec::new();
    for v in &faults {
        let f = v.fault.as_ref().unwrap();
        if matches!(f, Fault::RootMissing) {
            // a directory that is not there MAY be reported; a base that is a link whose target is
            // missing is a missing link target: it is reported
            // (a maximum depth below the glob's prefix makes the walk empty without reading anything)
            let dangling_base = matches!(model.get(&w.base).map(|i| &i.kind), Some(Kind::Link { .. }))
                && w.depth.window().1.is_none();
            if dangling_base && uv.es.is_empty() {
                out.violate(
                    "C20",
                    "err-complete",
                    wi,
                    format!("the base {:?} is a link whose target is missing, yet no error item was produced", w.base),
                    vec![format!("no-error:{}", w.base)],
                );
            }
            if dangling_base {
                out.probe("fault:base-is-a-dangling-link");
            }
            continue;
        }
        if reported.contains(&v.path) {
            continue;
        }
        let obliged = match f {
            Fault::Unreadable | Fault::NoSearch => {
                // a directory the healed walk must enter: something beneath it matches there — or
                // the walk kept the directory itself (yielded it): a kept directory is not a
                // discarded tree, its entries are due downstream (C13), so it has to be read
                !is_glob
                    || hvisits.iter().any(|h| is_below(&h.path, &v.path) && matches(&h.path))
                    || uv.ys.iter().any(|y| y.wp.as_deref() == Some(v.path.as_str()))
            },
            _ => {
                // a bad link: reported when its directory was demonstrably listed
                let dir = parent(&v.path);
                let sib = |p: &Option<String>| p.as_deref().filter(|p| *p != v.path && *p != dir && parent(p) == dir).map(String::from);
                let mut seen: BTreeSet<String> = BTreeSet::new();
                seen.extend(uv.ys.iter().filter_map(|y| sib(&y.wp)));
                seen.extend(uv.es.iter().filter_map(|e| sib(&e.wp)));
                seen.extend(uv.saws.iter().filter_map(|s| sib(&s.wp)));
                // (or the walk kept — yielded — that directory, see above)
                !is_glob || seen.len() >= 2 || uv.ys.iter().any(|y| y.wp.as_deref() == Some(dir))
            },
        };
        // ... and only if the faulty entry itself was reachable: for a glob walk its directory may
        // have been pruned above it; demand the report only if the entry (for directories) was fed
        let reachable = match f {
            Fault::Unreadable | Fault::NoSearch => {
                !is_glob || uv.saws.iter().any(|s| s.wp.as_deref() == Some(v.path.as_str()))
            },
            _ => true,
        };
        if obliged && reachable && matches!(f, Fault::LinkToUnreadable) {
            // its error names no path: such faults are due as a number, not one by one
            due_pathless.push(v.path.clone());
        }
        else if obliged && reachable {
            out.violate(
                "C20",
                "err-complete",
                wi,
                format!("{} at {:?} was touched by the walk but no error item names it (swallowed)", fault_name(f), v.path),
                vec![format!("no-error:{}", v.path)],
            );
        }
        else {
            out.probe("fault:in-prunable-region");
        }
    }
    if due_pathless.len() > pathless {
        out.violate(
            "C20",
            "err-complete",
            wi,
            format!(
                "{} links to directories that cannot be opened were touched by the walk ({:?}), but only {} error items without a path were produced",
                due_pathless.len(),
                due_pathless,
                pathless
            ),
            due_pathless.iter().map(|p| format!("no-error:{}", p)).collect(),
        );
    }
    // reach: where the faults sit
    for v in &faults {
        let sibs: Vec<&Visit> = visits.iter().filter(|x| parent(&x.path) == parent(&v.path) && !x.path.is_empty() && x.path != space.start).collect();
        let f = v.fault.as_ref().unwrap();
        if v.path == space.start {
            out.probe(format!("fault:{}:at-walk-start", fault_name(f)));
        }
        else {
            out.probe(format!("fault:{}:{}", fault_name(f), if sibs.len() <= 1 { "only-child" } else { "among-siblings" }));
        }
    }
    if faults.len() >= 2 {
        out.probe("fault:several");
    }
    for pair in uv.es.windows(2) {
        if !uv.ys.iter().any(|y| y.seq > pair[0].seq && y.seq < pair[1].seq) {
            out.probe("fault:consecutive-error-items");
        }
    }
    if uv.es.len() >= 3 {
        out.probe("fault:three-or-more-error-items");
    }
    if uv.es.len() >= 32 {
        out.probe("fault:dozens-of-error-items");
    }
}

/// Negations and entry filters pass error items through unchanged and in place.
fn pass_through(wi: usize, w: &Walker, s: &View, uv: &View, u: &UFeed, ex: &Expect, out: &mut Outcome) {
    let key = |e: &E| (e.path.clone(), e.depth, e.kind.clone(), e.cycle, e.display.clone());
    let dead_dirs: Vec<&str> = u
        .entries
        .iter()
        .enumerate()
        .filter(|(j, e)| e.is_dir && ex.lv.iter().any(|col| col[*j] == LV::Tree || col[*j] == LV::NotTree))
        .map(|(_, e)| e.wp.as_str())
        .collect();
    let may_dirs: Vec<&str> = u
        .entries
        .iter()
        .enumerate()
        .filter(|(j, e)| e.is_dir && ex.lv.iter().any(|col| col[*j] == LV::NotMay))
        .map(|(_, e)| e.wp.as_str())
        .collect();
    let mut s_left: Vec<&E> = s.es.iter().collect();
    for ue in &uv.es {
        let wp = ue.wp.clone().unwrap_or_default();
        let beneath_dead = dead_dirs.iter().any(|d| is_below(&wp, d));
        let at_dead = dead_dirs.iter().any(|d| wp == *d);
        let may = may_dirs.iter().any(|d| is_under(&wp, d));
        let pos = s_left.iter().position(|se| key(se) == key(ue));
        if ue.path.is_none() {
            // an error that names no path (F12) cannot be placed beneath or beside a discarded tree:
            // it is matched if it came through and is not missed if it did not
            if let Some(i) = pos {
                s_left.remove(i);
            }
            continue;
        }
        match pos {
            Some(i) => {
                s_left.remove(i);
                if beneath_dead {
                    out.violate(
                        "C20",
                        "pass-through",
                        wi,
                        format!("error for {:?} lies beneath a directory a filter discarded as a tree, yet it was produced", wp),
                        vec![format!("leak-error:{}", wp)],
                    );
                }
                if beneath_dead || at_dead {
                    out.probe("fault:beneath-or-at-tree-discarded-directory");
                }
            },
            None => {
                if beneath_dead || at_dead || may {
                    out.probe("fault:suppressed-by-tree-discard");
                    continue;
                }
                // changed or swallowed?
                let same_path = s_left.iter().position(|se| se.path == ue.path);
                match same_path {
                    Some(i) => {
                        let se = s_left.remove(i);
                        out.violate(
                            "C20",
                            "pass-through",
                            wi,
                            format!("error item changed on its way through {:?}: {:?} became {:?}", w.layers, key(ue), key(se)),
                            vec![format!("changed-error:{}", wp)],
                        );
                    },
                    None => out.violate(
                        "C20",
                        "pass-through",
                        wi,
                        format!("error for {:?} ({}) was swallowed by the stack {:?}", wp, ue.kind, w.layers),
                        vec![format!("swallowed-error:{}", wp)],
                    ),
                }
            },
        }
    }
    for se in s_left {
        out.violate(
            "C20",
            "pass-through",
            wi,
            format!("the stack produced an error item the underlying walk does not: {:?}", key(se)),
            vec![format!("new-error:{}", se.path.clone().unwrap_or_default())],
        );
    }
    // in place: the merged item sequence of S is a subsequence of U's
    let seq = |v: &View| -> Vec<(usize, String)> {
        let mut items: Vec<(usize, String)> = v.ys.iter().map(|y| (y.seq, format!("ok:{}", y.path))).collect();
        items.extend(v.es.iter().map(|e| (e.seq, format!("err:{}:{}", e.path.clone().unwrap_or_default(), e.kind))));
        items.sort();
        items
    };
    let (ss, us) = (seq(s), seq(uv));
    let mut i = 0;
    for (_, item) in &us {
        if i < ss.len() && ss[i].1 == *item {
            i += 1;
        }
    }
    if i < ss.len() && s.es.iter().all(|se| uv.es.iter().any(|ue| key(ue) == key(se))) && ss.iter().all(|x| us.iter().any(|y| y.1 == x.1)) {
        out.violate(
            "C20",
            "pass-through",
            wi,
            format!("items are not in place: {:?} is out of order relative to the underlying walk", ss[i].1),
            vec![format!("moved:{}", ss[i].1)],
        );
    }
}
