//! C20 — I/O faults during a walk are reported, isolated and never swallowed.
//! Faults are real kernel errors (run as uid nobody): mode-000 and r-- directories, dangling,
//! self-referential and ancestor-re-entering links, unreachable walk roots; plus (configuration D)
//! a mutator actor that changes the tree between two `next()` calls.

use std::collections::BTreeSet;

use wax::Program;

use crate::env::{Env, HarnessError};
use crate::gen::{Gen, LinkMode, Tier};
use crate::model::{Fault, Model, Visit};
use crate::oracle::*;
use crate::props::common::*;
use crate::props::stack::*;
use crate::rng::Rng;
use crate::scenario::*;

fn kinds_of(f: &Fault) -> &'static [&'static str] {
    match f {
        Fault::Unreadable | Fault::NoSearch | Fault::NoSearchLink => &["PermissionDenied"],
        Fault::Dangling => &["NotFound"],
        Fault::ELoop => &["FilesystemLoop", "Uncategorized", "Other"],
        Fault::Cycle { .. } => &["Other"],
        Fault::RootMissing => &["NotFound", "NotADirectory"],
    }
}

fn fault_name(f: &Fault) -> &'static str {
    match f {
        Fault::Unreadable => "dir-000",
        Fault::NoSearch => "dir-in-r--",
        Fault::NoSearchLink => "link-in-r--",
        Fault::Dangling => "dangling-link",
        Fault::ELoop => "self-link",
        Fault::Cycle { .. } => "ancestor-link",
        Fault::RootMissing => "missing-root",
    }
}

/// Plants permission faults. Links are never placed inside, or pointed through, restricted
/// directories (keeps the fault kinds independent; a sampling restriction).
fn plant_modes(g: &mut Gen, tree: &mut Vec<Node>, keep_clear: &[String]) -> Vec<String> {
    let model = Model::from_tree(tree).unwrap();
    let link_touch: Vec<String> = tree
        .iter()
        .filter_map(|n| match &n.kind {
            Kind::Link { target } => {
                let t = match target.strip_prefix(R) {
                    Some(rest) => crate::exec::to_world(&format!("{}{}", R, rest), ""),
                    None => crate::exec::to_world(&format!("{}/{}/{}", R, parent(&n.path), target), ""),
                };
                Some((n.path.clone(), t))
            },
            _ => None,
        })
        .flat_map(|(p, t)| std::iter::once(p).chain(t))
        .collect();
    let dirs: Vec<String> = tree.iter().filter(|n| n.kind == Kind::Dir).map(|n| n.path.clone()).collect();
    if dirs.is_empty() {
        return vec![];
    }
    let k = match g.rng.below(10) {
        0 => 0,
        1..=5 => 1,
        6..=8 => 2,
        _ => 3,
    };
    let mut planted = Vec::new();
    for _ in 0..k {
        let d = if g.rng.chance(6, 10) {
            // prefer directories that have content
            let c: Vec<&String> = dirs.iter().filter(|d| model.get(d).map_or(false, |i| !i.children.is_empty())).collect();
            if c.is_empty() { g.rng.pick(&dirs).clone() } else { (*g.rng.pick(&c)).clone() }
        }
        else {
            g.rng.pick(&dirs).clone()
        };
        if link_touch.iter().any(|p| is_under(p, &d)) || keep_clear.iter().any(|p| is_under(p, &d)) {
            continue;
        }
        let mode = if g.rng.chance(6, 10) { 0 } else { 0o444 };
        if let Some(n) = tree.iter_mut().find(|n| n.path == d) {
            if n.mode.is_none() {
                n.mode = Some(mode);
                planted.push(d);
            }
        }
    }
    planted
}

pub fn generate(rng: &mut Rng, tier: Tier, stats: &mut GenStats) -> Scenario {
    let mut g = Gen::new(rng, tier);
    let links = if g.rng.chance(1, 2) { LinkMode::All } else { LinkMode::None };
    let mut tree = g.tree(links);
    let model0 = Model::from_tree(&tree).unwrap();
    let cwd = g.pick_dir(&model0, 50);
    let base = g.pick_dir(&model0, 55);
    plant_modes(&mut g, &mut tree, &[cwd.clone(), base.clone()]);
    let model = Model::from_tree(&tree).unwrap();
    let has_links = tree.iter().any(|n| matches!(n.kind, Kind::Link { .. }));
    let link = if has_links && g.rng.chance(6, 10) { Link::ReadTarget } else { Link::ReadFile };
    let mut w = Walker {
        source: Source::Path,
        base,
        spelling: g.spelling(),
        link,
        depth: Depth::Unbounded,
        order: Order::Lex,
        victims: vec![],
        layers: vec![Layer::Fe(vec![])],
        taps: g.rng.chance(1, 2),
    };
    if g.rng.chance(6, 10) {
        w.source = Source::Glob {
            expr: "**".into(),
            rooted: false,
        };
        for _ in 0..8 {
            let (e, r) = g.walk_glob(&model, &w.base, 1, true, &mut stats.rejections);
            let cand = Walker {
                source: Source::Glob { expr: e.clone(), rooted: r },
                ..w.clone()
            };
            if prefix_touches_link(&model, &w.base, &e, r) || crate::props::c15::cycle_above_prefix(&model, &cand) {
                stats.restricted += 1;
                continue;
            }
            w = cand;
            break;
        }
    }
    let mut victims: Vec<String> = Vec::new();
    if g.rng.chance(6, 10) {
        w.layers = layers(
            &mut g,
            &model,
            &w,
            &StackOpts {
                max_layers: 3,
                observer: true,
            },
            stats,
            &mut victims,
        );
    }
    // faults are victims too: steer them to the first / last position among their siblings
    let space = Space::of(&w, DUMMY_ROOT);
    for v in model.traverse(&space.start, w.link, None) {
        if v.fault.is_some() {
            victims.push(v.path.clone());
        }
    }
    w.victims = victims;
    w.order = g.order(true);
    Scenario {
        prop: "C20".into(),
        seed: 0,
        tree,
        cwd,
        walkers: vec![w],
        mutations: vec![],
        schedule: vec![],
    }
}

/// The healed counterfactual: the same tree with every permission fault repaired.
fn healed(sc: &Scenario) -> Model {
    let tree: Vec<Node> = sc
        .tree
        .iter()
        .map(|n| Node {
            mode: None,
            ..n.clone()
        })
        .collect();
    Model::from_tree(&tree).unwrap()
}

pub fn check(sc: &Scenario, env: &mut Env) -> Result<Outcome, HarnessError> {
    let mut out = Outcome::default();
    let log = run_main(sc, env, &mut out)?;
    panic_clause("C20", sc, &log, &mut out);
    let model = model_of(sc)?;
    let heal = healed(sc);
    for (wi, w) in sc.walkers.iter().enumerate() {
        let s = View::of(&log, wi, &sc.cwd);
        if s.panic.is_some() {
            continue;
        }
        let u = run_underlying(sc, env, wi)?;
        let uv = View::of(&u.log, wi, &sc.cwd);
        let glob = walk_glob(w, &env.root_text);
        let space = Space::of(w, &env.root_text);
        let visits = model.traverse(&space.start, w.link, None);
        let hvisits = heal.traverse(&space.start, w.link, None);
        let matches = |p: &str| glob.as_ref().map_or(true, |g| g.is_match(space.rel(p).as_str()));
        source_clauses(sc, wi, w, &uv, &visits, &hvisits, &space, glob.is_some(), &matches, &model, &mut out);
        // the stack over it
        let real_layers = w.layers.len() > 1 || !matches!(w.layers.first(), Some(Layer::Fe(t)) if t.is_empty());
        if real_layers {
            let ex = expect(&w.layers, &u, &sc.cwd)?;
            let actual: Vec<String> = s.ys.iter().map(|y| y.wp.clone().unwrap_or_default()).collect();
            if actual != ex.yields {
                let (mut a, mut e) = (actual.clone(), ex.yields.clone());
                a.sort();
                e.sort();
                let (missing, extra) = diff_sorted(&a, &e);
                let mut items: Vec<String> = missing.iter().map(|m| format!("missing:{}", m)).collect();
                items.extend(extra.iter().map(|m| format!("extra:{}", m)));
                if items.is_empty() {
                    items.push("order".into());
                }
                out.violate(
                    "C20",
                    "ok-exact",
                    wi,
                    format!(
                        "stack {:?} over a faulty tree: yielded entries differ from those the filters keep of the underlying walk; missing {:?} extra {:?}",
                        w.layers, missing, extra
                    ),
                    items,
                );
            }
            pass_through(wi, w, &s, &uv, &u, &ex, &mut out);
            discard_probes(&w.layers, &u, &ex, &mut out);
        }
        if !uv.es.is_empty() || !s.es.is_empty() {
            out.nontrivial = true;
        }
        walker_probes(w, &mut out);
    }
    Ok(out)
}

#[allow(clippy::too_many_arguments)]
fn source_clauses(
    _sc: &Scenario,
    wi: usize,
    w: &Walker,
    uv: &View,
    visits: &[Visit],
    hvisits: &[Visit],
    space: &Space,
    is_glob: bool,
    matches: &dyn Fn(&str) -> bool,
    model: &Model,
    out: &mut Outcome,
) {
    // The directory the walk starts in (the invariant prefix of a glob) may itself lie beneath a
    // restricted directory: then the walk cannot start and its only item is that error.
    let restricted_above = |wp: &str| {
        let mut p = wp;
        while !p.is_empty() {
            p = parent(p);
            if model.get(p).map_or(false, |i| i.mode.is_some()) {
                return true;
            }
        }
        false
    };
    let unreachable_root = is_glob
        && uv.ys.is_empty()
        && uv.es.len() == 1
        && uv.es[0].kind == "PermissionDenied"
        && uv.es[0].wp.as_deref().map_or(false, restricted_above);
    // ok-exact: exactly what a fault-free walk of the readable part of the tree would yield
    let mut expected: Vec<String> = Vec::new();
    let mut base_may = false;
    for v in visits {
        if unreachable_root {
            break;
        }
        if v.fault.as_ref().map_or(false, |f| !f.yields_entry()) {
            continue;
        }
        let m = matches(&v.path);
        if is_glob && v.path == space.start && space.start_is_base {
            base_may = m;
            continue;
        }
        if m {
            expected.push(v.path.clone());
        }
    }
    expected.sort();
    let mut actual = uv.yielded_sorted();
    if base_may {
        if let Some(i) = actual.iter().position(|p| *p == space.start) {
            actual.remove(i);
        }
    }
    let (missing, extra) = diff_sorted(&actual, &expected);
    if !missing.is_empty() || !extra.is_empty() {
        let mut items: Vec<String> = missing.iter().map(|m| format!("missing:{}", m)).collect();
        items.extend(extra.iter().map(|m| format!("extra:{}", m)));
        // name "stops at the first error" as such
        let first_err = uv.es.first().map(|e| e.seq);
        let stopped = extra.is_empty()
            && first_err.map_or(false, |fe| !uv.ys.iter().any(|y| y.seq > fe) && uv.es.iter().all(|e| e.seq <= fe));
        out.violate(
            "C20",
            if stopped { "carry-on" } else { "ok-exact" },
            wi,
            format!(
                "{:?} base {:?} {:?}: entries yielded from a faulty tree differ from a fault-free walk of its readable part; missing {:?} extra {:?}{}",
                w.source,
                w.base,
                w.link,
                missing,
                extra,
                if stopped { " (nothing was produced after the first error)" } else { "" }
            ),
            items,
        );
    }
    // err-sound: every error names a planted fault (or the unreachable walk root), once, right kind
    let faults: Vec<&Visit> = visits.iter().filter(|v| v.fault.is_some()).collect();
    let mut reported: BTreeSet<String> = BTreeSet::new();
    for e in &uv.es {
        let wp = e.wp.clone().unwrap_or_default();
        match faults.iter().find(|v| v.path == wp) {
            Some(v) => {
                let f = v.fault.as_ref().unwrap();
                let cycle = matches!(f, Fault::Cycle { .. });
                if !reported.insert(wp.clone()) {
                    out.violate("C20", "err-sound", wi, format!("fault at {:?} reported more than once", wp), vec![format!("dup-error:{}", wp)]);
                }
                if !kinds_of(f).contains(&e.kind.as_str()) || e.cycle != cycle {
                    out.violate(
                        "C20",
                        "err-sound",
                        wi,
                        format!("{} at {:?} reported as kind {} (cycle: {}): {:?}", fault_name(f), wp, e.kind, e.cycle, e.display),
                        vec![format!("error-kind:{}", wp)],
                    );
                }
                out.fire(fault_name(f));
            },
            None => {
                let lonely = uv.ys.is_empty() && uv.es.len() == 1;
                let root_gone = lonely
                    && expected.is_empty()
                    && (e.kind == "NotFound" || e.kind == "NotADirectory")
                    && !model.is_dir_node(&wp);
                if unreachable_root {
                    // accounts for every restricted directory above it
                    for v in faults.iter().filter(|v| is_below(&wp, &v.path)) {
                        reported.insert(v.path.clone());
                    }
                    out.fire("unreachable-walk-root");
                }
                else if root_gone {
                    out.fire("missing-root");
                }
                else {
                    out.violate(
                        "C20",
                        "err-sound",
                        wi,
                        format!("error item names {:?} (kind {}), which is not a planted fault: {:?}", e.path, e.kind, e.display),
                        vec![format!("error:{}", wp)],
                    );
                }
            },
        }
    }
    // err-complete: a fault is reported whenever the walk was obliged to touch it
    for v in &faults {
        let f = v.fault.as_ref().unwrap();
        if reported.contains(&v.path) || matches!(f, Fault::RootMissing) {
            continue;
        }
        let obliged = match f {
            Fault::Unreadable | Fault::NoSearch => {
                // a directory the healed walk must enter: something beneath it matches there
                !is_glob || hvisits.iter().any(|h| is_below(&h.path, &v.path) && matches(&h.path))
            },
            _ => {
                // a bad link: reported when its directory was demonstrably listed
                let dir = parent(&v.path);
                let sib = |p: &Option<String>| p.as_deref().filter(|p| *p != v.path && *p != dir && parent(p) == dir).map(String::from);
                let mut seen: BTreeSet<String> = BTreeSet::new();
                seen.extend(uv.ys.iter().filter_map(|y| sib(&y.wp)));
                seen.extend(uv.es.iter().filter_map(|e| sib(&e.wp)));
                seen.extend(uv.saws.iter().filter_map(|s| sib(&s.wp)));
                !is_glob || seen.len() >= 2
            },
        };
        // ... and only if the faulty entry itself was reachable: for a glob walk its directory may
        // have been pruned above it; demand the report only if the entry (for directories) was fed
        let reachable = match f {
            Fault::Unreadable | Fault::NoSearch => {
                !is_glob || uv.saws.iter().any(|s| s.wp.as_deref() == Some(v.path.as_str()))
            },
            _ => true,
        };
        if obliged && reachable {
            out.violate(
                "C20",
                "err-complete",
                wi,
                format!("{} at {:?} was touched by the walk but no error item names it (swallowed)", fault_name(f), v.path),
                vec![format!("no-error:{}", v.path)],
            );
        }
        else {
            out.probe("fault:in-prunable-region");
        }
    }
    // reach: where the faults sit
    for v in &faults {
        let sibs: Vec<&Visit> = visits.iter().filter(|x| parent(&x.path) == parent(&v.path) && !x.path.is_empty() && x.path != space.start).collect();
        let f = v.fault.as_ref().unwrap();
        if v.path == space.start {
            out.probe(format!("fault:{}:at-walk-start", fault_name(f)));
        }
        else {
            out.probe(format!("fault:{}:{}", fault_name(f), if sibs.len() <= 1 { "only-child" } else { "among-siblings" }));
        }
    }
    if faults.len() >= 2 {
        out.probe("fault:several");
    }
}

/// Negations and entry filters pass error items through unchanged and in place.
fn pass_through(wi: usize, w: &Walker, s: &View, uv: &View, u: &UFeed, ex: &Expect, out: &mut Outcome) {
    let key = |e: &E| (e.path.clone(), e.depth, e.kind.clone(), e.cycle, e.display.clone());
    let dead_dirs: Vec<&str> = u
        .entries
        .iter()
        .enumerate()
        .filter(|(j, e)| e.is_dir && ex.lv.iter().any(|col| col[*j] == LV::Tree))
        .map(|(_, e)| e.wp.as_str())
        .collect();
    let may_dirs: Vec<&str> = u
        .entries
        .iter()
        .enumerate()
        .filter(|(j, e)| e.is_dir && ex.lv.iter().any(|col| col[*j] == LV::NotMay))
        .map(|(_, e)| e.wp.as_str())
        .collect();
    let mut s_left: Vec<&E> = s.es.iter().collect();
    for ue in &uv.es {
        let wp = ue.wp.clone().unwrap_or_default();
        let beneath_dead = dead_dirs.iter().any(|d| is_below(&wp, d));
        let at_dead = dead_dirs.iter().any(|d| wp == *d);
        let may = may_dirs.iter().any(|d| is_under(&wp, d));
        let pos = s_left.iter().position(|se| key(se) == key(ue));
        match pos {
            Some(i) => {
                s_left.remove(i);
                if beneath_dead {
                    out.violate(
                        "C20",
                        "pass-through",
                        wi,
                        format!("error for {:?} lies beneath a directory a filter discarded as a tree, yet it was produced", wp),
                        vec![format!("leak-error:{}", wp)],
                    );
                }
                if beneath_dead || at_dead {
                    out.probe("fault:beneath-or-at-tree-discarded-directory");
                }
            },
            None => {
                if beneath_dead || at_dead || may {
                    out.probe("fault:suppressed-by-tree-discard");
                    continue;
                }
                // changed or swallowed?
                let same_path = s_left.iter().position(|se| se.path == ue.path);
                match same_path {
                    Some(i) => {
                        let se = s_left.remove(i);
                        out.violate(
                            "C20",
                            "pass-through",
                            wi,
                            format!("error item changed on its way through {:?}: {:?} became {:?}", w.layers, key(ue), key(se)),
                            vec![format!("changed-error:{}", wp)],
                        );
                    },
                    None => out.violate(
                        "C20",
                        "pass-through",
                        wi,
                        format!("error for {:?} ({}) was swallowed by the stack {:?}", wp, ue.kind, w.layers),
                        vec![format!("swallowed-error:{}", wp)],
                    ),
                }
            },
        }
    }
    for se in s_left {
        out.violate(
            "C20",
            "pass-through",
            wi,
            format!("the stack produced an error item the underlying walk does not: {:?}", key(se)),
            vec![format!("new-error:{}", se.path.clone().unwrap_or_default())],
        );
    }
    // in place: the merged item sequence of S is a subsequence of U's
    let seq = |v: &View| -> Vec<(usize, String)> {
        let mut items: Vec<(usize, String)> = v.ys.iter().map(|y| (y.seq, format!("ok:{}", y.path))).collect();
        items.extend(v.es.iter().map(|e| (e.seq, format!("err:{}:{}", e.path.clone().unwrap_or_default(), e.kind))));
        items.sort();
        items
    };
    let (ss, us) = (seq(s), seq(uv));
    let mut i = 0;
    for (_, item) in &us {
        if i < ss.len() && ss[i].1 == *item {
            i += 1;
        }
    }
    if i < ss.len() && s.es.iter().all(|se| uv.es.iter().any(|ue| key(ue) == key(se))) && ss.iter().all(|x| us.iter().any(|y| y.1 == x.1)) {
        out.violate(
            "C20",
            "pass-through",
            wi,
            format!("items are not in place: {:?} is out of order relative to the underlying walk", ss[i].1),
            vec![format!("moved:{}", ss[i].1)],
        );
    }
}
