//! Oracles: named clauses, each owned by exactly one property and each a direct reading of a
//! sentence of that property. Shared vocabulary lives here; per-property clauses in `props/`.

use std::collections::{BTreeMap, BTreeSet};

use wax::{Glob, Program};

use crate::env::{Env, HarnessError};
use crate::exec::{glob_text, to_world, Ev};
use crate::model::{Model, Visit};
use crate::scenario::*;

#[derive(Clone, Debug, serde::Serialize, serde::Deserialize, PartialEq, Eq)]
pub struct Violation {
    pub prop: String,
    pub clause: String,
    pub walker: usize,
    pub detail: String,
    /// The discrepancies (paths / items), each of which a known finding must explain.
    pub items: Vec<String>,
}

#[derive(Default)]
pub struct Outcome {
    pub violations: Vec<Violation>,
    pub nontrivial: bool,
    pub probes: BTreeSet<String>,
    /// fault kind -> how often it actually fired (an `Err` was produced / tainted region visited)
    pub fired: BTreeMap<String, usize>,
    /// The log of the main execution (derived executions are summarised by their fingerprints).
    pub log: Vec<Ev>,
    pub fingerprint: u64,
}

impl Outcome {
    pub fn violate(&mut self, prop: &str, clause: &str, walker: usize, detail: String, items: Vec<String>) {
        self.violations.push(Violation {
            prop: prop.to_string(),
            clause: format!("{}.{}", prop, clause),
            walker,
            detail,
            items,
        });
    }
    pub fn probe(&mut self, p: impl Into<String>) {
        self.probes.insert(p.into());
    }
    pub fn fire(&mut self, k: &str) {
        *self.fired.entry(k.to_string()).or_insert(0) += 1;
    }
}

#[derive(Clone, Debug)]
pub struct Y {
    pub seq: usize,
    pub path: String,
    /// world-relative path (lexical), if inside the world
    pub wp: Option<String>,
    pub root: String,
    pub rel: String,
    pub depth: usize,
    pub ft: char,
    pub matched: Option<String>,
    pub cand: Option<String>,
}

#[derive(Clone, Debug)]
pub struct E {
    pub seq: usize,
    pub path: Option<String>,
    pub wp: Option<String>,
    pub depth: usize,
    pub kind: String,
    pub cycle: bool,
    pub display: String,
}

#[derive(Clone, Debug)]
pub struct S {
    pub seq: usize,
    pub layer: usize,
    pub path: String,
    pub wp: Option<String>,
    pub root: String,
    pub rel: String,
    pub depth: usize,
    pub ft: char,
    pub verdict: Verdict,
}

#[derive(Clone, Debug)]
pub struct T {
    pub seq: usize,
    pub pos: usize,
    pub class: char,
    pub path: Option<String>,
    pub wp: Option<String>,
}

/// Everything walker `w` did, extracted from the log.
#[derive(Clone, Debug, Default)]
pub struct View {
    pub ys: Vec<Y>,
    pub es: Vec<E>,
    pub saws: Vec<S>,
    pub taps: Vec<T>,
    pub ended: bool,
    pub panic: Option<String>,
    pub budget: bool,
    /// dropped by the scheduler before exhaustion
    pub dropped: bool,
}

impl View {
    pub fn of(log: &[Ev], wi: usize, cwd: &str) -> View {
        let mut v = View::default();
        // the working directory the walker was constructed under (its paths are spelled from there)
        let built: Option<String> = log.iter().find_map(|e| match e {
            Ev::Built { w, cwd } if *w == wi => Some(cwd.clone()),
            _ => None,
        });
        let cwd: &str = built.as_deref().unwrap_or(cwd);
        for (seq, ev) in log.iter().enumerate() {
            if ev.walker() != Some(wi) {
                continue;
            }
            match ev {
                Ev::Yield {
                    path,
                    root,
                    rel,
                    depth,
                    ft,
                    matched,
                    cand,
                    ..
                } => v.ys.push(Y {
                    seq,
                    wp: to_world(path, cwd),
                    path: path.clone(),
                    root: root.clone(),
                    rel: rel.clone(),
                    depth: *depth,
                    ft: *ft,
                    matched: matched.clone(),
                    cand: cand.clone(),
                }),
                Ev::Error {
                    path,
                    depth,
                    kind,
                    cycle,
                    display,
                    ..
                } => v.es.push(E {
                    seq,
                    wp: path.as_ref().and_then(|p| to_world(p, cwd)),
                    path: path.clone(),
                    depth: *depth,
                    kind: kind.clone(),
                    cycle: *cycle,
                    display: display.clone(),
                }),
                Ev::End { .. } => v.ended = true,
                Ev::Panic { msg, .. } => v.panic = Some(msg.clone()),
                Ev::Budget { .. } => v.budget = true,
                Ev::Dropped { .. } => v.dropped = true,
                Ev::Saw {
                    layer,
                    path,
                    root,
                    rel,
                    depth,
                    ft,
                    verdict,
                    ..
                } => v.saws.push(S {
                    seq,
                    layer: *layer,
                    wp: to_world(path, cwd),
                    path: path.clone(),
                    root: root.clone(),
                    rel: rel.clone(),
                    depth: *depth,
                    ft: *ft,
                    verdict: *verdict,
                }),
                Ev::Tap { pos, class, path, .. } => v.taps.push(T {
                    seq,
                    pos: *pos,
                    class: *class,
                    wp: path.as_ref().and_then(|p| to_world(p, cwd)),
                    path: path.clone(),
                }),
                Ev::Mut { .. } | Ev::Built { .. } => {},
            }
        }
        v
    }

    /// World paths of the yielded entries, sorted (a multiset).
    pub fn yielded_sorted(&self) -> Vec<String> {
        let mut v: Vec<String> = self
            .ys
            .iter()
            .map(|y| y.wp.clone().unwrap_or_else(|| format!("<outside:{}>", y.path)))
            .collect();
        v.sort();
        v
    }
}

/// The pattern built independently through the public constructor of the same family (a single
/// text -> `Glob::new`; several -> `wax::any`), evaluated on a batch of candidate texts.
pub fn reference_matches(pf: &PatForm, cands: &[String]) -> Result<Vec<bool>, String> {
    let texts = pf.texts();
    // every text must build on its own
    for t in &texts {
        Glob::new(t).map_err(|e| format!("{:?}: {}", t, e))?;
    }
    match pf {
        PatForm::Text(t) | PatForm::Glob(t) | PatForm::ResultGlob(t) => {
            let g = Glob::new(t).map_err(|e| e.to_string())?;
            Ok(cands.iter().map(|s| g.is_match(s.as_str())).collect())
        },
        PatForm::AnyText(ts) | PatForm::AnyGlob(ts) => {
            if ts.is_empty() {
                return Err("zero-pattern combinator".to_string());
            }
            let any = wax::any(ts.iter().map(|t| t.as_str())).map_err(|e| e.to_string())?;
            Ok(cands.iter().map(|s| any.is_match(s.as_str())).collect())
        },
        PatForm::NestedAny(tss) => {
            if tss.iter().any(|ts| ts.is_empty()) {
                return Err("zero-pattern combinator".to_string());
            }
            let inner: Vec<_> = tss.iter().map(|ts| wax::any(ts.iter().map(|t| t.as_str()))).collect();
            let any = wax::any(inner).map_err(|e| e.to_string())?;
            Ok(cands.iter().map(|s| any.is_match(s.as_str())).collect())
        },
    }
}

pub fn reference_pattern(pf: &PatForm) -> Result<(), String> {
    reference_matches(pf, &[]).map(|_| ())
}

/// Candidate space of a glob walk: where the model traversal starts, and the candidate text of a
/// world path. The model never asks the glob for its prefix.
pub struct Space {
    pub start: String,
    /// text prepended to the components below `start` (dot run, or the absolute root)
    pub lead: String,
    /// `true` if the traversal start is "the base itself" of the statement (yielded only if the
    /// glob matches the empty path).
    pub start_is_base: bool,
}

impl Space {
    pub fn of(w: &Walker, root_text: &str) -> Space {
        match &w.source {
            Source::Path => Space {
                start: w.base.clone(),
                lead: String::new(),
                start_is_base: true,
            },
            Source::Glob { rooted: true, .. } => Space {
                start: String::new(),
                lead: root_text.to_string(),
                start_is_base: false,
            },
            Source::Glob { expr, .. } if up_prefix(expr).is_some() => {
                // a base above the world: candidates are the world root and everything beneath it,
                // their text led by the components between that base and the world root
                let (k, _) = up_prefix(expr).unwrap();
                Space {
                    start: String::new(),
                    lead: last_components(root_text, k).join("/"),
                    start_is_base: false,
                }
            },
            Source::Glob { expr, .. } => {
                let mut start = w.base.clone();
                let mut run: Vec<&str> = Vec::new();
                for c in expr.split('/') {
                    match dot_kind(c) {
                        Some(".") => run.push("."),
                        Some(_) => {
                            run.push("..");
                            start = parent(&start).to_string();
                        },
                        None => break,
                    }
                }
                Space {
                    start,
                    start_is_base: run.is_empty(),
                    lead: run.join("/"),
                }
            },
        }
    }

    /// Candidate text of world path `p` (which is `start` or below it).
    /// (As text: a name that is not valid UTF-8 appears the way the lossy conversion of paths to
    /// candidate text renders it.)
    pub fn rel(&self, p: &str) -> String {
        lossy(&join(&self.lead, rel_to(p, &self.start)))
    }
}

pub fn walk_glob(w: &Walker, root_text: &str) -> Option<Glob<'static>> {
    match &w.source {
        Source::Glob { expr, rooted } => {
            Glob::new(&glob_text(expr, *rooted, root_text)).ok().map(|g| g.into_owned())
        },
        _ => None,
    }
}

pub fn children_of<'a>(visits: &'a [Visit], dir: &str) -> Vec<&'a Visit> {
    visits
        .iter()
        .filter(|v| v.path != dir && parent(&v.path) == dir && (!dir.is_empty() || !v.path.is_empty()))
        .collect()
}

pub fn run_main(sc: &Scenario, env: &mut Env, out: &mut Outcome) -> Result<Vec<Ev>, HarnessError> {
    let log = env.run(sc)?;
    out.log = log.clone();
    out.fingerprint = crate::exec::fingerprint(&log);
    Ok(log)
}

/// Clause shared by every property's profile but owned by the property being checked: a panic
/// inside `next()` (or while constructing the walk) is a violation of that property.
pub fn panic_clause(prop: &str, sc: &Scenario, log: &[Ev], out: &mut Outcome) {
    for wi in 0..sc.walkers.len() {
        let v = View::of(log, wi, &sc.cwd);
        if let Some(msg) = v.panic {
            out.violate(prop, "panic-in-walk", wi, msg.clone(), vec![msg]);
        }
    }
}

pub fn model_of(sc: &Scenario) -> Result<Model, HarnessError> {
    Model::from_tree(&sc.tree).map_err(HarnessError)
}

pub fn diff_sorted(actual: &[String], expected: &[String]) -> (Vec<String>, Vec<String>) {
    // multiset difference
    let mut missing = Vec::new();
    let mut extra = Vec::new();
    let (mut i, mut j) = (0, 0);
    while i < actual.len() || j < expected.len() {
        if i < actual.len() && j < expected.len() && actual[i] == expected[j] {
            i += 1;
            j += 1;
        }
        else if j >= expected.len() || (i < actual.len() && actual[i] < expected[j]) {
            extra.push(actual[i].clone());
            i += 1;
        }
        else {
            missing.push(expected[j].clone());
            j += 1;
        }
    }
    (missing, extra)
}

/// The leading *simple* components of a glob expression, as separate expressions: the expression
/// is split at separators outside any `{}`, `<>` or `[]`; the list ends before the first component
/// that is a tree wildcard, contains a separator or tree wildcard inside a group, or carries a flag
/// (a flag's scope crosses components). Every path the glob matches has, at position `i`, a
/// component matched by the `i`-th of these — so a directory whose own name fails its component can
/// contain no match ("a glob's component cannot match it"). Built with the public API only.
pub fn leading_components(expr: &str) -> Vec<Glob<'static>> {
    let mut comps: Vec<String> = Vec::new();
    let mut cur = String::new();
    let mut depth = 0i32;
    let mut esc = false;
    for ch in expr.chars() {
        if esc {
            cur.push(ch);
            esc = false;
            continue;
        }
        match ch {
            '\\' => {
                cur.push(ch);
                esc = true;
            },
            '{' | '<' | '[' => {
                depth += 1;
                cur.push(ch);
            },
            '}' | '>' | ']' => {
                depth -= 1;
                cur.push(ch);
            },
            '/' if depth == 0 => comps.push(std::mem::take(&mut cur)),
            _ => cur.push(ch),
        }
    }
    comps.push(cur);
    let mut out = Vec::new();
    for c in comps {
        if c.is_empty() || c.contains("**") || c.contains("(?") || dot_kind(&c).is_some() {
            break;
        }
        // a separator inside a group
        let mut d = 0i32;
        let mut e = false;
        let mut inner_sep = false;
        for ch in c.chars() {
            if e {
                e = false;
                continue;
            }
            match ch {
                '\\' => e = true,
                '{' | '<' | '[' => d += 1,
                '}' | '>' | ']' => d -= 1,
                '/' if d > 0 => inner_sep = true,
                _ => {},
            }
        }
        if inner_sep {
            break;
        }
        match crate::exec::guarded(|| Glob::new(&c).ok().map(|g| g.into_owned())) {
            Ok(Some(g)) => out.push(g),
            _ => break,
        }
    }
    out
}

/// The alternatives of a negation text: `any([a, b])` and `{a,b}` are the same thing (an
/// alternation), so a text that is wholly one alternation stands for its branches, recursively —
/// `{b/**,c}` is the two alternatives `b/**` and `c`, of which the first is exhaustive. Anything
/// that is not wholly an alternation (or whose branches would not build on their own) is one
/// alternative. Works on the text; shares nothing with the crate's token trees.
pub fn flatten_alternatives(text: &str) -> Vec<String> {
    let chars: Vec<char> = text.chars().collect();
    if chars.len() < 2 || chars[0] != '{' {
        return vec![text.to_string()];
    }
    // the closer of the first brace must be the last character; split at commas of depth one
    let mut parts: Vec<String> = Vec::new();
    let mut cur = String::new();
    let (mut depth, mut esc, mut class) = (0i32, false, false);
    for (i, &ch) in chars.iter().enumerate() {
        if esc {
            cur.push(ch);
            esc = false;
            continue;
        }
        if class {
            cur.push(ch);
            if ch == '\\' {
                esc = true;
            }
            else if ch == ']' {
                class = false;
            }
            continue;
        }
        match ch {
            '\\' => {
                cur.push(ch);
                esc = true;
            },
            '[' => {
                class = true;
                cur.push(ch);
            },
            '{' | '<' => {
                depth += 1;
                if depth > 1 {
                    cur.push(ch);
                }
            },
            '}' | '>' => {
                depth -= 1;
                if depth == 0 {
                    if i + 1 != chars.len() || ch != '}' {
                        return vec![text.to_string()];
                    }
                    parts.push(std::mem::take(&mut cur));
                }
                else {
                    cur.push(ch);
                }
            },
            ',' if depth == 1 => parts.push(std::mem::take(&mut cur)),
            _ => cur.push(ch),
        }
    }
    if depth != 0 || parts.len() < 2 {
        return vec![text.to_string()];
    }
    let builds = |t: &str| matches!(crate::exec::guarded(|| Glob::new(t).is_ok()), Ok(true));
    if !parts.iter().all(|p| builds(p)) {
        return vec![text.to_string()];
    }
    parts.iter().flat_map(|p| flatten_alternatives(p)).collect()
}
