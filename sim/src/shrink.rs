//! Minimisation before reporting: greedy delta debugging to a fixpoint. A candidate is accepted only
//! if the *same property and clause* still fails (and is still not explained by a known finding).
//! Never draws from the PRNG; every candidate is executed in a fresh scratch world.

use crate::env::Env;
use crate::findings::{self, Registry};
use crate::oracle::Violation;
use crate::scenario::*;

pub struct Shrinker<'a> {
    pub clause: String,
    pub registry: &'a Registry,
    pub scratch: std::path::PathBuf,
    pub executions: usize,
    pub budget: usize,
}

pub struct Failing {
    pub violation: Violation,
    pub log: Vec<crate::exec::Ev>,
    pub fingerprint: u64,
}

impl<'a> Shrinker<'a> {
    /// Runs the scenario; `Some` if the clause still fails.
    pub fn fails(&mut self, sc: &Scenario) -> Option<Failing> {
        if self.executions >= self.budget {
            return None;
        }
        self.executions += 1;
        if crate::model::Model::from_tree(&sc.tree).is_err() {
            return None;
        }
        let mut env = Env::new(self.scratch.join("w0").join(format!("r{:016x}", sc.seed)));
        let res = crate::props::check(sc, &mut env);
        let root_text = env.root_text.clone();
        env.finish();
        let out = res.ok()?;
        let v = out
            .violations
            .iter()
            .find(|v| v.clause == self.clause && findings::explain(self.registry, sc, v, &root_text).is_none())?
            .clone();
        Some(Failing {
            violation: v,
            log: out.log,
            fingerprint: out.fingerprint,
        })
    }

    fn try_accept(&mut self, cur: &mut Scenario, cand: Scenario) -> bool {
        if cand == *cur {
            return false;
        }
        if self.fails(&cand).is_some() {
            *cur = cand;
            true
        }
        else {
            false
        }
    }

    pub fn minimise(&mut self, start: &Scenario) -> Scenario {
        let mut cur = start.clone();
        loop {
            let before = cur.clone();
            self.pass(&mut cur);
            if cur == before || self.executions >= self.budget {
                break;
            }
        }
        cur
    }

    fn pass(&mut self, cur: &mut Scenario) {
        // walkers
        if cur.walkers.len() > 1 {
            for i in (0..cur.walkers.len()).rev() {
                if cur.walkers.len() <= 1 {
                    break;
                }
                let mut c = cur.clone();
                c.walkers.remove(i);
                c.schedule.clear();
                self.try_accept(cur, c);
            }
        }
        // schedule and mutations
        if !cur.schedule.is_empty() && cur.mutations.is_empty() {
            let mut c = cur.clone();
            c.schedule.clear();
            self.try_accept(cur, c);
        }
        for i in (0..cur.triggers.len()).rev() {
            // an in-flight trigger becomes a plain "before the walk" step, or goes away
            let mut c = cur.clone();
            let t = c.triggers.remove(i);
            c.schedule.insert(0, Step::M(t.mutation));
            if !self.try_accept(cur, c) {
                let mut c = cur.clone();
                c.triggers.remove(i);
                self.try_accept(cur, c);
            }
        }
        for i in (0..cur.mutations.len()).rev() {
            let mut c = cur.clone();
            c.mutations.remove(i);
            c.triggers = c
                .triggers
                .iter()
                .filter(|t| t.mutation != i)
                .map(|t| Trigger {
                    mutation: if t.mutation > i { t.mutation - 1 } else { t.mutation },
                    ..t.clone()
                })
                .collect();
            c.schedule = c
                .schedule
                .iter()
                .filter_map(|s| match s.clone() {
                    Step::M(m) if m == i => None,
                    Step::M(m) if m > i => Some(Step::M(m - 1)),
                    s => Some(s),
                })
                .collect();
            self.try_accept(cur, c);
        }
        if cur.lazy {
            let mut c = cur.clone();
            c.lazy = false;
            self.try_accept(cur, c);
        }
        // drop / cd steps one at a time
        let mut i = 0;
        while i < cur.schedule.len() {
            if matches!(cur.schedule[i], Step::D(_) | Step::Cd(_)) {
                let mut c = cur.clone();
                c.schedule.remove(i);
                if self.try_accept(cur, c) {
                    continue;
                }
            }
            i += 1;
        }
        // schedule prefix: shorten walker steps before mutations
        if !cur.mutations.is_empty() || cur.schedule.iter().any(|s| matches!(s, Step::D(_) | Step::Cd(_))) {
            let mut i = 0;
            while i < cur.schedule.len() {
                if matches!(cur.schedule[i], Step::W(_)) {
                    let mut c = cur.clone();
                    c.schedule.remove(i);
                    if self.try_accept(cur, c) {
                        continue;
                    }
                }
                i += 1;
            }
        }
        for wi in 0..cur.walkers.len() {
            // layers
            let mut li = cur.walkers[wi].layers.len();
            while li > 0 {
                li -= 1;
                if li >= cur.walkers[wi].layers.len() {
                    continue;
                }
                let mut c = cur.clone();
                c.walkers[wi].layers.remove(li);
                self.try_accept(cur, c);
            }
            // verdict entries and pattern texts
            for li in 0..cur.walkers[wi].layers.len() {
                match cur.walkers[wi].layers[li].clone() {
                    Layer::Fe(table) => {
                        for ti in (0..table.len()).rev() {
                            let mut c = cur.clone();
                            if let Layer::Fe(t) = &mut c.walkers[wi].layers[li] {
                                if ti < t.len() {
                                    t.remove(ti);
                                }
                            }
                            self.try_accept(cur, c);
                        }
                    },
                    Layer::Not(pf) => {
                        let texts = pf.texts();
                        // a single text in the plainest form
                        for t in &texts {
                            let mut c = cur.clone();
                            c.walkers[wi].layers[li] = Layer::Not(PatForm::Text(t.clone()));
                            if self.try_accept(cur, c) {
                                break;
                            }
                        }
                        if texts.len() > 1 {
                            for drop in 0..texts.len() {
                                let rest: Vec<String> = texts.iter().enumerate().filter(|(i, _)| *i != drop).map(|(_, t)| t.clone()).collect();
                                let mut c = cur.clone();
                                c.walkers[wi].layers[li] = Layer::Not(PatForm::AnyText(rest));
                                if self.try_accept(cur, c) {
                                    break;
                                }
                            }
                        }
                        if let Layer::Not(pf) = cur.walkers[wi].layers[li].clone() {
                            if let PatForm::Text(t) = pf {
                                for cand in simpler_exprs(&t) {
                                    let mut c = cur.clone();
                                    c.walkers[wi].layers[li] = Layer::Not(PatForm::Text(cand));
                                    if self.try_accept(cur, c) {
                                        break;
                                    }
                                }
                            }
                        }
                    },
                }
            }
            // glob
            if let Source::Glob { expr, rooted } = cur.walkers[wi].source.clone() {
                for cand in simpler_exprs(&expr) {
                    let mut c = cur.clone();
                    c.walkers[wi].source = Source::Glob { expr: cand, rooted };
                    if self.try_accept(cur, c) {
                        break;
                    }
                }
            }
            // configuration
            let simplifications: Vec<Box<dyn Fn(&mut Walker)>> = vec![
                Box::new(|w| w.taps = false),
                Box::new(|w| w.order = Order::Lex),
                Box::new(|w| w.spelling = Spelling::Absolute),
                Box::new(|w| w.depth = Depth::Unbounded),
                Box::new(|w| w.link = Link::ReadFile),
                Box::new(|w| w.victims.clear()),
                Box::new(|w| w.base = String::new()),
            ];
            for f in simplifications {
                let mut c = cur.clone();
                f(&mut c.walkers[wi]);
                self.try_accept(cur, c);
            }
        }
        if !cur.cwd.is_empty() {
            let mut c = cur.clone();
            c.cwd = String::new();
            self.try_accept(cur, c);
        }
        // tree: delete nodes leaf-first; clear modes
        let mut i = cur.tree.len();
        while i > 0 {
            i -= 1;
            if i >= cur.tree.len() {
                continue;
            }
            let p = cur.tree[i].path.clone();
            let has_child = cur.tree.iter().any(|n| is_below(&n.path, &p));
            let needed = cur.cwd == p
                || is_below(&cur.cwd, &p)
                || cur.walkers.iter().any(|w| w.base == p || is_below(&w.base, &p));
            if has_child || needed {
                continue;
            }
            let mut c = cur.clone();
            c.tree.remove(i);
            self.try_accept(cur, c);
        }
        for i in 0..cur.tree.len() {
            if cur.tree[i].mode.is_some() {
                let mut c = cur.clone();
                c.tree[i].mode = None;
                self.try_accept(cur, c);
            }
        }
    }
}

/// Simpler building sub-expressions: fewer components, plain wildcards.
fn simpler_exprs(expr: &str) -> Vec<String> {
    let comps: Vec<&str> = expr.split('/').collect();
    let mut out = Vec::new();
    if comps.len() > 1 {
        for i in 0..comps.len() {
            // do not split inside braces / angle brackets
            let rest: Vec<&str> = comps.iter().enumerate().filter(|(j, _)| *j != i).map(|(_, c)| *c).collect();
            let cand = rest.join("/");
            if balanced(&cand) {
                out.push(cand);
            }
        }
    }
    for i in 0..comps.len() {
        if comps[i] != "*" && comps[i] != "**" && dot_kind(comps[i]).is_none() {
            let mut c: Vec<&str> = comps.clone();
            c[i] = "*";
            let cand = c.join("/");
            if balanced(&cand) {
                out.push(cand);
            }
        }
    }
    if expr != "**" {
        out.push("**".to_string());
    }
    out.retain(|c| c != expr && wax_builds(c));
    out
}

fn balanced(s: &str) -> bool {
    let mut depth = 0i32;
    let mut esc = false;
    for ch in s.chars() {
        if esc {
            esc = false;
            continue;
        }
        match ch {
            '\\' => esc = true,
            '{' | '<' | '[' => depth += 1,
            '}' | '>' | ']' => depth -= 1,
            _ => {},
        }
        if depth < 0 {
            return false;
        }
    }
    depth == 0
}

fn wax_builds(s: &str) -> bool {
    matches!(crate::exec::guarded(|| wax::Glob::new(s).is_ok()), Ok(true))
}
