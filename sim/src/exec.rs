//! Running one scenario: a single-threaded discrete-event loop in which a scheduler picks the next
//! actor (a walker's `next()` or the mutator). There is no clock in the code under test, so the
//! event queue degenerates to "who goes next"; every event gets a global sequence number (its index
//! in the log).

use serde::{Deserialize, Serialize};
use std::cell::RefCell;
use std::cmp::Ordering;
use std::panic::{catch_unwind, AssertUnwindSafe};
use std::path::{Component, Path, PathBuf};
use std::rc::Rc;
use std::sync::Arc;

use wax::walk::verif::{self, Fed};
use wax::walk::{
    DepthBehavior, DepthMax, DepthMin, DepthMinMax, Entry, EntryResidue, FileIterator, GlobEntry,
    LinkBehavior, PathExt, TreeEntry, WalkBehavior, WalkError,
};
use wax::Glob;

use crate::rng::hash_bytes;
use crate::scenario::*;
use crate::world::World;

#[derive(Serialize, Deserialize, Clone, Debug, PartialEq, Eq)]
pub enum Ev {
    /// An `Ok` item came out of the top of walker `w`'s stack.
    Yield {
        w: usize,
        path: String,
        root: String,
        rel: String,
        depth: usize,
        ft: char,
        matched: Option<String>,
        cand: Option<String>,
    },
    /// An `Err` item came out of the top of the stack.
    Error {
        w: usize,
        path: Option<String>,
        depth: usize,
        kind: String,
        cycle: bool,
        display: String,
    },
    /// `next()` returned `None`.
    End { w: usize },
    Panic { w: usize, msg: String },
    /// The per-walker `next()` budget (bounded liveness) was exhausted.
    Budget { w: usize, calls: usize },
    /// A `filter_entry` closure (layer `layer`) was invoked.
    Saw {
        w: usize,
        layer: usize,
        path: String,
        root: String,
        rel: String,
        depth: usize,
        ft: char,
        verdict: Verdict,
    },
    /// Feed tap at position `pos` (0 = directly above the source, i = above layer i-1).
    Tap {
        w: usize,
        pos: usize,
        class: char,
        path: Option<String>,
    },
    /// The mutator acted.
    Mut { i: usize, path: String, result: String },
    /// Walker `w` was dropped before it was exhausted.
    Dropped { w: usize },
    /// Walker `w` was constructed while the working directory of the process was `cwd`.
    Built { w: usize, cwd: String },
}

impl Ev {
    pub fn walker(&self) -> Option<usize> {
        match self {
            Ev::Yield { w, .. }
            | Ev::Error { w, .. }
            | Ev::End { w }
            | Ev::Panic { w, .. }
            | Ev::Budget { w, .. }
            | Ev::Saw { w, .. }
            | Ev::Dropped { w }
            | Ev::Built { w, .. }
            | Ev::Tap { w, .. } => Some(*w),
            Ev::Mut { .. } => None,
        }
    }
}

pub type Log = Rc<RefCell<Vec<Ev>>>;

/// Set while code under test runs under `catch_unwind`; the panic hook is silent only then.
pub static IN_SUT: std::sync::atomic::AtomicBool = std::sync::atomic::AtomicBool::new(false);

pub fn guarded<T>(f: impl FnOnce() -> T) -> std::thread::Result<T> {
    IN_SUT.store(true, std::sync::atomic::Ordering::SeqCst);
    let r = catch_unwind(AssertUnwindSafe(f));
    IN_SUT.store(false, std::sync::atomic::Ordering::SeqCst);
    r
}

/// The mutator actor's state, shared with filter closures (for in-flight triggers).
pub struct Mutator {
    pub root: PathBuf,
    pub root_text: String,
    pub mutations: Vec<Mutation>,
    pub applied: Vec<bool>,
    pub triggers: Vec<Trigger>,
}

impl Mutator {
    pub fn apply(&mut self, mi: usize, log: &Log) {
        if mi >= self.mutations.len() || self.applied[mi] {
            return;
        }
        self.applied[mi] = true;
        let world = World {
            root: self.root.clone(),
            root_text: self.root_text.clone(),
            // (mutations never aim at the foreign tree)
            foreign: None,
        };
        let result = world.mutate(&self.mutations[mi], mi);
        log.borrow_mut().push(Ev::Mut {
            i: mi,
            path: self.mutations[mi].path.clone(),
            result,
        });
    }
}

#[derive(Clone)]
pub struct Ctx {
    pub w: usize,
    pub log: Log,
    pub root_text: Rc<String>,
    pub mutator: Rc<RefCell<Mutator>>,
}

impl Ctx {
    /// Path text with the absolute world root replaced by `$R` so logs compare across processes.
    pub fn norm(&self, p: &Path) -> String {
        norm_text(&from_os(p.as_os_str()), &self.root_text)
    }
}

pub fn norm_text(s: &str, root_text: &str) -> String {
    // (a path spelled from the base `//` begins with two separators; it is the same path)
    let s = if s.starts_with("//") && s[1..].starts_with(root_text) { &s[1..] } else { s };
    match s.strip_prefix(root_text) {
        Some(rest) if rest.is_empty() || rest.starts_with('/') => return format!("{}{}", R, rest),
        _ => {},
    }
    // Walks from a base above the world spell directories above the world root (`$R^k`: k levels
    // up, the root of the file system being `$R^n` followed by its separators) and relative
    // segments that begin with the last components of the world root's own path (`$R~k`). Both
    // contain process-specific names (the scratch directory), so they are normalised too.
    let comps: Vec<&str> = root_text.split('/').filter(|c| !c.is_empty()).collect();
    let n = comps.len();
    if s.starts_with('/') {
        let trimmed = s.trim_end_matches('/');
        let tail = &s[trimmed.len()..];
        let acomps: Vec<&str> = trimmed.split('/').filter(|c| !c.is_empty()).collect();
        let clean = trimmed.is_empty() || format!("/{}", acomps.join("/")) == trimmed;
        if clean && acomps.len() < n && comps[..acomps.len()] == acomps[..] {
            return format!("{}^{}{}", R, n - acomps.len(), tail);
        }
    }
    else {
        for k in (1..=n).rev() {
            let t = comps[n - k..].join("/");
            if let Some(rest) = s.strip_prefix(t.as_str()) {
                if rest.is_empty() || rest.starts_with('/') {
                    return format!("{}~{}{}", R, k, rest);
                }
            }
        }
    }
    s.to_string()
}

/// Inverse of `norm_text`.
pub fn denorm_text(text: &str, root_text: &str) -> String {
    let Some(rest) = text.strip_prefix(R)
    else {
        return text.to_string();
    };
    let comps: Vec<&str> = root_text.split('/').filter(|c| !c.is_empty()).collect();
    let n = comps.len();
    let number = |t: &str| -> Option<(usize, usize)> {
        let d = t.chars().take_while(|c| c.is_ascii_digit()).count();
        t[..d].parse::<usize>().ok().map(|k| (k, d))
    };
    if let Some(t) = rest.strip_prefix('^') {
        if let Some((k, d)) = number(t) {
            let keep = n.saturating_sub(k);
            let head = if keep == 0 { String::new() } else { format!("/{}", comps[..keep].join("/")) };
            return format!("{}{}", head, &t[d..]);
        }
    }
    if let Some(t) = rest.strip_prefix('~') {
        if let Some((k, d)) = number(t) {
            let k = k.min(n);
            return format!("{}{}", comps[n - k..].join("/"), &t[d..]);
        }
    }
    format!("{}{}", root_text, rest)
}

/// Lexical mapping of a path as spelled by the walk (absolute `$R/...` or relative to `cwd`) to a
/// world-relative path. `None` if it leaves the world.
pub fn to_world(text: &str, cwd: &str) -> Option<String> {
    let mut comps: Vec<String> = Vec::new();
    let rest = if let Some(rest) = text.strip_prefix(R) {
        if rest.starts_with('^') || rest.starts_with('~') {
            // above the world, or a relative segment spelled from above it
            return None;
        }
        rest
    }
    else if text.starts_with('/') {
        return None;
    }
    else {
        comps = cwd.split('/').filter(|c| !c.is_empty()).map(String::from).collect();
        text
    };
    for c in rest.split('/') {
        match c {
            "" | "." => {},
            ".." => {
                comps.pop()?;
            },
            c => comps.push(c.to_string()),
        }
    }
    Some(comps.join("/"))
}

pub fn ft_char(ft: std::fs::FileType) -> char {
    if ft.is_dir() {
        'd'
    }
    else if ft.is_symlink() {
        'l'
    }
    else if ft.is_file() {
        'f'
    }
    else if std::os::unix::fs::FileTypeExt::is_fifo(&ft) {
        'p'
    }
    else {
        '?'
    }
}

/// What the simulator copies out of a yielded entry beyond the `Entry` trait.
pub trait Describe: Entry {
    fn matched_cand(&self) -> Option<(String, String)>;
}

impl Describe for TreeEntry {
    fn matched_cand(&self) -> Option<(String, String)> {
        None
    }
}

impl Describe for GlobEntry {
    fn matched_cand(&self) -> Option<(String, String)> {
        Some((
            self.matched().complete().to_string(),
            self.to_candidate_path().to_string(),
        ))
    }
}

/// Owned record of one item from the top of a stack.
pub enum Item {
    Ok {
        path: String,
        root: String,
        rel: String,
        depth: usize,
        ft: char,
        matched: Option<String>,
        cand: Option<String>,
    },
    Err {
        path: Option<String>,
        depth: usize,
        kind: String,
        cycle: bool,
        display: String,
    },
}

pub type BoxIt = Box<dyn Iterator<Item = Item>>;

fn record_err(ctx: &Ctx, error: WalkError) -> Item {
    let path = error.path().map(|p| ctx.norm(p));
    let depth = error.depth();
    let display = norm_display(&format!("{}", error), &ctx.root_text);
    let io: std::io::Error = error.into();
    let kind = format!("{:?}", io.kind());
    // A link cycle is not an I/O error: `WalkError` converts it to `ErrorKind::Other` and its
    // display names both ends.
    let cycle = display.contains("symbolic link cycle");
    Item::Err {
        path,
        depth,
        kind,
        cycle,
        display,
    }
}

/// Error display with the world root replaced and the OS error text (strerror) cut off, so that
/// only the structure is compared, never the message catalogue.
fn norm_display(s: &str, root_text: &str) -> String {
    let s = s.replace(root_text, R);
    match s.find("`: ") {
        Some(i) if !s.contains("symbolic link cycle") => s[..i + 1].to_string(),
        _ => s,
    }
}

fn finish<I>(it: I, ctx: &Ctx) -> BoxIt
where
    I: FileIterator + 'static,
    I::Entry: Describe + 'static,
{
    let ctx = ctx.clone();
    Box::new(it.map(move |r: Result<I::Entry, WalkError>| match r {
        Ok(e) => {
            let (root, rel) = e.root_relative_paths();
            let mc = e.matched_cand();
            let path_text = ctx.norm(e.path());
            let (root, rel, depth, ft) = (ctx.norm(root), ctx.norm(rel), e.depth(), ft_char(e.file_type()));
            // `into_path` must give the same path as `path` (reported in `path` itself if not)
            let into = ctx.norm(&e.into_path());
            let path_text = if into == path_text { path_text } else { format!("{} <into_path: {}>", path_text, into) };
            return Item::Ok {
                path: path_text,
                root,
                rel,
                depth,
                ft,
                matched: mc.as_ref().map(|m| norm_text(&m.0, &ctx.root_text)),
                cand: mc.map(|m| norm_text(&m.1, &ctx.root_text)),
            };
        },
        Err(error) => record_err(&ctx, error),
    }))
}

fn no_tap<I>(it: I, _pos: usize, _ctx: &Ctx) -> I {
    it
}

fn do_tap<I>(
    it: I,
    pos: usize,
    ctx: &Ctx,
) -> impl FileIterator<Entry = I::Entry, Residue = I::Residue> + 'static
where
    I: FileIterator + 'static,
    I::Entry: 'static,
    I::Residue: 'static,
{
    let ctx = ctx.clone();
    verif::tap(it, move |fed: Fed, p: Option<&Path>| {
        let class = match fed {
            Fed::Filtrate => 'F',
            Fed::Error => 'E',
            Fed::Node => 'N',
            Fed::Tree => 'T',
        };
        let path = p.map(|p| ctx.norm(p));
        ctx.log.borrow_mut().push(Ev::Tap {
            w: ctx.w,
            pos,
            class,
            path,
        });
    })
}

fn fe_closure(
    table: &[(String, Verdict)],
    layer: usize,
    ctx: &Ctx,
    cwd: &str,
) -> impl FnMut(&dyn Entry) -> Option<EntryResidue> + 'static {
    let table: Vec<(String, Verdict)> = table.to_vec();
    let ctx = ctx.clone();
    let cwd = cwd.to_string();
    move |e: &dyn Entry| {
        let path = ctx.norm(e.path());
        // Verdicts are keyed by the entry's *path* (never by what the closure is told about root
        // and relative segments).
        let verdict = to_world(&path, &cwd)
            .and_then(|wp| table.iter().find(|(p, _)| *p == wp).map(|(_, v)| *v))
            .unwrap_or(Verdict::Keep);
        let (root, rel) = e.root_relative_paths();
        ctx.log.borrow_mut().push(Ev::Saw {
            w: ctx.w,
            layer,
            path,
            root: ctx.norm(root),
            rel: ctx.norm(rel),
            depth: e.depth(),
            ft: ft_char(e.file_type()),
            verdict,
        });
        // in-flight triggers: the mutator strikes while this item is inside the stack
        if let Some(wp) = to_world(&ctx.norm(e.path()), &cwd) {
            let hits: Vec<usize> = {
                let m = ctx.mutator.borrow();
                m.triggers.iter().filter(|t| t.w == ctx.w && t.path == wp).map(|t| t.mutation).collect()
            };
            for mi in hits {
                ctx.mutator.borrow_mut().apply(mi, &ctx.log);
            }
        }
        match verdict {
            Verdict::Keep => None,
            Verdict::File => Some(EntryResidue::File),
            Verdict::Tree => Some(EntryResidue::Tree),
        }
    }
}

/// A pattern text that starts with the placeholder `$R` (followed by `/` or nothing) is rooted at
/// the world root: the placeholder is replaced by the escaped absolute path (negations over rooted
/// glob walks match against the whole absolute path).
pub fn subst_pattern(pf: &PatForm, root_text: &str) -> PatForm {
    let esc = wax::escape(root_text).into_owned();
    pf.map_texts(&mut |t: &str| match t.strip_prefix(R) {
        Some(rest) if rest.is_empty() || rest.starts_with('/') => format!("{}{}", esc, rest),
        _ => t.to_string(),
    })
}

/// 0: borrowed, 1: `into_owned`, 2: parsed — a function of the expression text alone.
pub fn ownership(text: &str) -> u64 {
    // (the absolute path of the world differs from process to process: only what follows it counts)
    let tail = match text.find("/r") {
        Some(_) if text.starts_with('/') => text.rsplit('/').next().unwrap_or(text),
        _ => text,
    };
    hash_bytes(7, tail.as_bytes()) % 3
}

/// Builds the negation exactly in the form the scenario says.
fn apply_not<I>(it: I, form: &PatForm, root_text: &str) -> Result<wax::walk::Not<I>, String>
where
    I: FileIterator,
{
    let form = &subst_pattern(form, root_text);
    let e = |e: wax::BuildError| format!("not: {}", e);
    match form {
        PatForm::Text(t) => it.not(t.as_str()).map_err(e),
        PatForm::Glob(t) => {
            // a compiled glob is handed over borrowed, owned, or parsed (`FromStr`): three ways to
            // the same pattern, chosen by the text so that a scenario always takes the same one
            match ownership(t) {
                0 => {
                    let g = Glob::new(t).map_err(|e| format!("not glob: {}", e))?;
                    it.not(g).map_err(e)
                },
                1 => {
                    let g = Glob::new(t).map_err(|e| format!("not glob: {}", e))?.into_owned();
                    it.not(g).map_err(e)
                },
                _ => {
                    let g: Glob<'static> = t.parse().map_err(|e| format!("not glob: {}", e))?;
                    it.not(g).map_err(e)
                },
            }
        },
        PatForm::ResultGlob(t) => it.not(Glob::new(t)).map_err(e),
        PatForm::AnyText(ts) => {
            let any = wax::any(ts.iter().map(|t| t.as_str())).map_err(|e| format!("any: {}", e))?;
            it.not(any).map_err(e)
        },
        PatForm::AnyGlob(ts) => {
            let globs: Result<Vec<Glob>, _> = ts
                .iter()
                .map(|t| if ownership(t) == 0 { Glob::new(t) } else { Glob::new(t).map(Glob::into_owned) })
                .collect();
            let globs = globs.map_err(|e| format!("any glob: {}", e))?;
            let any = wax::any(globs).map_err(|e| format!("any: {}", e))?;
            it.not(any).map_err(e)
        },
        PatForm::NestedAny(tss) => {
            let inner: Vec<_> = tss
                .iter()
                .map(|ts| wax::any(ts.iter().map(|t| t.as_str())))
                .collect();
            it.not(wax::any(inner)).map_err(e)
        },
    }
}

macro_rules! levels {
    ($tap:ident; $($name:ident => $next:ident),* ; $last:ident) => {
        $(
            fn $name<I>(it: I, layers: &[Layer], idx: usize, ctx: &Ctx, cwd: &str) -> Result<BoxIt, String>
            where
                I: FileIterator + 'static,
                I::Entry: Describe + 'static,
                I::Residue: 'static,
            {
                let it = $tap(it, idx, ctx);
                match layers.first() {
                    None => Ok(finish(it, ctx)),
                    Some(Layer::Not(form)) => $next(apply_not(it, form, &ctx.root_text)?, &layers[1..], idx + 1, ctx, cwd),
                    Some(Layer::Fe(table)) => $next(
                        it.filter_entry(fe_closure(table, idx, ctx, cwd)),
                        &layers[1..],
                        idx + 1,
                        ctx,
                        cwd,
                    ),
                }
            }
        )*
        fn $last<I>(it: I, layers: &[Layer], idx: usize, ctx: &Ctx, _cwd: &str) -> Result<BoxIt, String>
        where
            I: FileIterator + 'static,
            I::Entry: Describe + 'static,
            I::Residue: 'static,
        {
            if !layers.is_empty() {
                return Err("too many layers".to_string());
            }
            let it = $tap(it, idx, ctx);
            Ok(finish(it, ctx))
        }
    };
}

/// Stack built with type erasure (H3) between the layers: one type whatever the depth.
fn build_erased<I>(it: I, layers: &[Layer], taps: bool, ctx: &Ctx, cwd: &str) -> Result<BoxIt, String>
where
    I: FileIterator + 'static,
    I::Entry: Describe + 'static,
    I::Residue: 'static,
{
    let mut it = verif::erase(it);
    if taps {
        it = verif::erase(do_tap(it, 0, ctx));
    }
    for (idx, layer) in layers.iter().enumerate() {
        it = match layer {
            Layer::Not(form) => verif::erase(apply_not(it, form, &ctx.root_text)?),
            Layer::Fe(table) => verif::erase(it.filter_entry(fe_closure(table, idx, ctx, cwd))),
        };
        if taps {
            it = verif::erase(do_tap(it, idx + 1, ctx));
        }
    }
    Ok(finish(it, ctx))
}

pub const MAX_LAYERS: usize = 5;
pub const MAX_LAYERS_ERASED: usize = 12;
levels!(no_tap; p5 => p4, p4 => p3, p3 => p2, p2 => p1, p1 => p0; p0);
levels!(do_tap; t5 => t4, t4 => t3, t3 => t2, t2 => t1, t1 => t0; t0);

pub fn base_text(w: &Walker, cwd: &str, root_text: &str) -> String {
    let rel = || {
        let c: Vec<&str> = cwd.split('/').filter(|c| !c.is_empty()).collect();
        let b: Vec<&str> = w.base.split('/').filter(|c| !c.is_empty()).collect();
        let mut k = 0;
        while k < c.len() && k < b.len() && c[k] == b[k] {
            k += 1;
        }
        let mut parts: Vec<&str> = Vec::new();
        for _ in k..c.len() {
            parts.push("..");
        }
        parts.extend(&b[k..]);
        if parts.is_empty() {
            ".".to_string()
        }
        else {
            parts.join("/")
        }
    };
    let abs = || {
        if w.base.is_empty() {
            root_text.to_string()
        }
        else {
            format!("{}/{}", root_text, w.base)
        }
    };
    // noise before the last component, only between two ordinary components below the world root
    let odd = |text: String, kind: u8, floor: usize| -> String {
        let comps: Vec<&str> = text.split('/').collect();
        let n = comps.len();
        if n < floor + 2 || comps[n - 1].is_empty() || comps[n - 2].is_empty() || comps[n - 1] == ".." || comps[n - 2] == ".." || comps[n - 2] == "." {
            return text;
        }
        let head = comps[..n - 1].join("/");
        match kind {
            0 => format!("{}//{}", head, comps[n - 1]),
            1 => format!("{}/./{}", head, comps[n - 1]),
            _ => format!("{}/../{}/{}", head, comps[n - 2], comps[n - 1]),
        }
    };
    match w.spelling {
        Spelling::Above { levels, slash } => {
            let comps: Vec<&str> = root_text.split('/').filter(|c| !c.is_empty()).collect();
            let k = (levels as usize).min(comps.len());
            let head = comps[..comps.len() - k].join("/");
            match (head.is_empty(), slash) {
                (true, false) => "/".to_string(),
                (true, true) => "//".to_string(),
                (false, false) => format!("/{}", head),
                (false, true) => format!("/{}/", head),
            }
        },
        Spelling::Odd { absolute: true, kind } => odd(abs(), kind, root_text.split('/').count()),
        Spelling::Odd { absolute: false, kind } => odd(rel(), kind, 0),
        Spelling::Absolute => abs(),
        Spelling::AbsoluteSlash => format!("{}/", abs()),
        Spelling::AbsoluteSlashDot => format!("{}/.", abs()),
        Spelling::Relative => rel(),
        Spelling::Empty => {
            let r = rel();
            if r == "." { String::new() } else { r }
        },
        Spelling::RelativeSlash => format!("{}/", rel()),
        Spelling::RelativeSlashDot => format!("{}/.", rel()),
    }
}

pub fn glob_text(expr: &str, rooted: bool, root_text: &str) -> String {
    if rooted {
        let esc = wax::escape(root_text).into_owned();
        if expr.is_empty() {
            esc
        }
        else {
            format!("{}/{}", esc, expr)
        }
    }
    else if let Some((k, rest)) = up_prefix(expr) {
        // the last k components of the world root, as a literal prefix (for a base above the world)
        let lead: Vec<String> = last_components(root_text, k).iter().map(|c| wax::escape(c).into_owned()).collect();
        let lead = lead.join("/");
        if rest.is_empty() { lead } else { format!("{}/{}", lead, rest) }
    }
    else {
        expr.to_string()
    }
}

/// Component count of the world root's absolute path if the walker's glob is rooted (for a base
/// above the world: the number of components between that base and the world root), else 0.
pub fn depth_shift(w: &Walker, root_text: &str) -> usize {
    match &w.source {
        Source::Glob { rooted: true, .. } => Path::new(root_text).components().count(),
        Source::Glob { expr, rooted: false } => up_prefix(expr).map_or(0, |(k, _)| last_components(root_text, k).len()),
        _ => 0,
    }
}

pub fn behavior(w: &Walker, root_text: &str) -> Result<WalkBehavior, String> {
    let depth = match w.depth.shifted(depth_shift(w, root_text)) {
        Depth::Unbounded => DepthBehavior::Unbounded,
        Depth::Max(n) => DepthMax(n).into(),
        Depth::Min(n) => DepthMin::from_min_or_unbounded(n),
        Depth::MinMax(p, q) => DepthMinMax::from_depths_or_max(p, q),
        Depth::Bounded(a, b) => {
            DepthBehavior::bounded(a, b).ok_or_else(|| "DepthBehavior::bounded is None".to_string())?
        },
        Depth::AtVariance(a, b, _) => {
            let Source::Glob { expr, rooted } = &w.source
            else {
                return Err("bounded_at_depth_variance needs a glob".to_string());
            };
            let glob = Glob::new(&glob_text(expr, *rooted, root_text)).map_err(|e| e.to_string())?.into_owned();
            DepthBehavior::bounded_at_depth_variance(a, b, wax::Program::depth(&glob))
                .ok_or_else(|| "DepthBehavior::bounded_at_depth_variance is None".to_string())?
        },
    };
    let link = match w.link {
        Link::ReadFile => LinkBehavior::ReadFile,
        Link::ReadTarget => LinkBehavior::ReadTarget,
    };
    // (field by field on top of the default, not a struct literal: a field added to `WalkBehavior`
    // by a later version of the crate must not stop the simulator from building)
    let mut behavior = WalkBehavior::default();
    behavior.depth = depth;
    behavior.link = link;
    Ok(behavior)
}

/// The form in which the behaviour reaches `walk`/`walk_with_behavior`: client code rarely writes
/// out a whole `WalkBehavior`; it passes nothing, `()`, or one of the values that convert into it.
/// Chooses the form the scenario asks for if it expresses exactly `beh`, else the plain value.
/// `None`: `walk(...)` without a behaviour. The conversions are the library's own `From`
/// implementations, applied here exactly as the generic entry point would apply them.
pub fn beh_arg(form: u8, beh: WalkBehavior) -> (Option<WalkBehavior>, &'static str) {
    let default_link = beh.link == LinkBehavior::default();
    let default_depth = beh.depth == DepthBehavior::default();
    match form {
        1 if default_link && default_depth => (None, "absent"),
        2 if default_link && default_depth => (Some(().into()), "unit"),
        3 | 1 | 2 if default_depth => (Some(beh.link.into()), "link-behaviour"),
        4 if default_link => (Some(beh.depth.into()), "depth-behaviour"),
        5 | 6 if default_link => match beh.depth {
            DepthBehavior::Max(m) => (Some(m.into()), "depth-max"),
            DepthBehavior::Min(m) => (Some(m.into()), "depth-min"),
            DepthBehavior::MinMax(m) => (Some(m.into()), "depth-min-max"),
            DepthBehavior::Unbounded => (Some(beh.depth.into()), "depth-behaviour"),
        },
        _ => (Some(beh), "walk-behaviour"),
    }
}

fn install_order(w: &Walker, cwd: &str, root_text: &str) {
    let is_dir = |p: &Path| std::fs::symlink_metadata(p).map(|m| m.is_dir()).unwrap_or(false);
    let name_key = |salt: u64, p: &Path| {
        hash_bytes(
            salt,
            p.file_name().map(|n| n.to_string_lossy().into_owned()).unwrap_or_default().as_bytes(),
        )
    };
    let order: Option<verif::EntryOrder> = match &w.order {
        Order::Native => None,
        Order::Lex => Some(Arc::new(|a: &Path, b: &Path| a.cmp(b))),
        Order::Rev => Some(Arc::new(|a: &Path, b: &Path| b.cmp(a))),
        Order::DirsFirst => Some(Arc::new(move |a: &Path, b: &Path| {
            (!is_dir(a), a).cmp(&(!is_dir(b), b))
        })),
        Order::FilesFirst => Some(Arc::new(move |a: &Path, b: &Path| {
            (is_dir(a), a).cmp(&(is_dir(b), b))
        })),
        Order::Keyed(salt) => {
            let salt = *salt;
            Some(Arc::new(move |a: &Path, b: &Path| {
                (name_key(salt, a), a).cmp(&(name_key(salt, b), b))
            }))
        },
        Order::VictimFirst(salt) | Order::VictimLast(salt) => {
            let salt = *salt;
            let first = matches!(w.order, Order::VictimFirst(_));
            let victims: Vec<String> = w.victims.clone();
            let cwd = cwd.to_string();
            let root_text = root_text.to_string();
            Some(Arc::new(move |a: &Path, b: &Path| -> Ordering {
                let class = |p: &Path| -> u8 {
                    let t = norm_text(&from_os(p.as_os_str()), &root_text);
                    let v = to_world(&t, &cwd).map_or(false, |wp| victims.contains(&wp));
                    match (v, first) {
                        (true, true) => 0,
                        (true, false) => 2,
                        _ => 1,
                    }
                };
                (class(a), name_key(salt, a), a).cmp(&(class(b), name_key(salt, b), b))
            }))
        },
    };
    verif::set_entry_order(order);
}

/// Builds walker `wi` of the scenario (reads the working directory and H1 at construction).
pub fn build_walker(
    sc: &Scenario,
    wi: usize,
    world: &World,
    log: &Log,
    mutator: &Rc<RefCell<Mutator>>,
    cwd: &str,
    globs: &GlobCache,
) -> Result<BoxIt, String> {
    let w = &sc.walkers[wi];
    let ctx = Ctx {
        w: wi,
        log: log.clone(),
        root_text: Rc::new(world.root_text.clone()),
        mutator: mutator.clone(),
    };
    if w.layers.len() > if w.erased { MAX_LAYERS_ERASED } else { MAX_LAYERS } {
        return Err("too many layers".to_string());
    }
    install_order(w, cwd, &world.root_text);
    let base = PathBuf::from(to_os(&base_text(w, cwd, &world.root_text)));
    let beh = behavior(w, &world.root_text)?;
    macro_rules! finish {
        ($it:expr) => {{
            let it = $it;
            if w.erased {
                build_erased(it, &w.layers, w.taps, &ctx, cwd)
            }
            else if w.taps {
                t5(it, &w.layers, 0, &ctx, cwd)
            }
            else {
                p5(it, &w.layers, 0, &ctx, cwd)
            }
        }};
    }
    macro_rules! start {
        ($arg:expr, $absent:expr, |$b:ident| $with:expr) => {
            match $arg {
                None => finish!($absent),
                Some($b) => finish!($with),
            }
        };
    }
    let (arg, _) = beh_arg(w.form, beh);
    // safety net: a base above the world is only ever walked with a glob whose literal prefix leads
    // straight back into the world (`$UP<k>` for exactly the k levels the base lies above it)
    {
        let up = match &w.source {
            Source::Glob { expr, rooted: false } => up_prefix(expr).map(|(k, _)| k),
            _ => None,
        };
        match (&w.spelling, up) {
            (Spelling::Above { levels, .. }, Some(k)) if k == *levels as usize && w.base.is_empty() => {},
            (Spelling::Above { .. }, _) | (_, Some(_)) => {
                return Err(format!("base above the world without the matching literal prefix ({:?}, {:?})", w.spelling, w.source));
            },
            _ => {},
        }
    }
    let res = match &w.source {
        Source::Path => start!(arg, base.as_path().walk(), |b| base.as_path().walk_with_behavior(b)),
        Source::Glob { expr, rooted } => {
            // safety net: the simulator never walks outside its world
            let ups = expr.split('/').take_while(|c| dot_kind(c) == Some("..")).count();
            if !*rooted && ups > depth_of(&w.base) {
                return Err(format!("glob {:?} from base {:?} would leave the world", expr, w.base));
            }
            // ... nor climb from a base that is, or lies beyond, a link (the kernel climbs from the
            // link's target)
            if !*rooted && ups > 0 {
                let mut p: &str = &w.base;
                loop {
                    if sc.tree.iter().any(|n| n.path == p && matches!(n.kind, Kind::Link { .. })) {
                        return Err(format!("glob {:?} climbs from base {:?}, which passes through a link", expr, w.base));
                    }
                    if p.is_empty() {
                        break;
                    }
                    p = parent(p);
                }
            }
            let text = glob_text(expr, *rooted, &world.root_text);
            // Walks whose expressions are the same text are built from one `Glob` value, which then
            // outlives them (a `Glob` is made to be reused); any other `Glob` is dropped as soon as
            // its walk exists.
            let shared = sc.walkers.iter().enumerate().any(|(k, o)| {
                k != wi
                    && matches!(&o.source, Source::Glob { expr: e, rooted: r } if glob_text(e, *r, &world.root_text) == text)
            });
            // (a glob that is not shared is walked borrowed, owned or parsed, see `ownership`)
            if !shared && ownership(&text) == 0 {
                let glob = Glob::new(&text).map_err(|e| format!("glob {:?}: {}", text, e))?;
                start!(arg, glob.walk(base.clone()), |b| glob.walk_with_behavior(base.clone(), b))
            }
            else {
                let glob = match globs.borrow().get(&text) {
                    Some(g) => g.clone(),
                    None if ownership(&text) == 2 => {
                        Rc::new(text.parse::<Glob<'static>>().map_err(|e| format!("glob {:?}: {}", text, e))?)
                    },
                    None => Rc::new(Glob::new(&text).map_err(|e| format!("glob {:?}: {}", text, e))?.into_owned()),
                };
                if shared {
                    globs.borrow_mut().insert(text.clone(), glob.clone());
                }
                start!(arg, glob.walk(base.clone()), |b| glob.walk_with_behavior(base.clone(), b))
            }
        },
    };
    verif::set_entry_order(None);
    res
}

pub type GlobCache = RefCell<std::collections::HashMap<String, Rc<Glob<'static>>>>;

pub struct Run {
    pub log: Vec<Ev>,
    /// Harness-level problem (never a violation): scenario could not be built.
    pub build_error: Option<String>,
}

/// Executes the scenario in an already materialised world. `budget[w]` = maximum `next()` calls.
pub fn execute(sc: &Scenario, world: &World, budget: &[usize]) -> Run {
    let log: Log = Rc::new(RefCell::new(Vec::new()));
    let cwd_abs = world.abs(&sc.cwd);
    if let Err(e) = std::env::set_current_dir(&cwd_abs) {
        return Run {
            log: vec![],
            build_error: Some(format!("chdir {:?}: {}", cwd_abs, e)),
        };
    }
    let mutator = Rc::new(RefCell::new(Mutator {
        root: world.root.clone(),
        root_text: world.root_text.clone(),
        mutations: sc.mutations.clone(),
        applied: vec![false; sc.mutations.len()],
        triggers: sc.triggers.clone(),
    }));
    let mut its: Vec<Option<BoxIt>> = Vec::new();
    let mut built = vec![false; sc.walkers.len()];
    let mut build_error: Option<String> = None;
    let cur_cwd: RefCell<String> = RefCell::new(sc.cwd.clone());
    let globs: GlobCache = RefCell::new(std::collections::HashMap::new());
    let mut construct = |wi: usize, its: &mut Vec<Option<BoxIt>>, built: &mut Vec<bool>| {
        if built[wi] {
            return;
        }
        built[wi] = true;
        let cwd = cur_cwd.borrow().clone();
        if cwd != sc.cwd {
            log.borrow_mut().push(Ev::Built { w: wi, cwd: cwd.clone() });
        }
        match guarded(|| build_walker(sc, wi, world, &log, &mutator, &cwd, &globs)) {
            Ok(Ok(it)) => its[wi] = Some(it),
            Ok(Err(e)) => build_error = Some(e),
            Err(p) => {
                log.borrow_mut().push(Ev::Panic {
                    w: wi,
                    msg: format!("construction: {}", panic_text(p)),
                });
            },
        }
    };
    for _ in 0..sc.walkers.len() {
        its.push(None);
    }
    if !sc.lazy {
        for wi in 0..sc.walkers.len() {
            construct(wi, &mut its, &mut built);
        }
    }
    let mut calls = vec![0usize; its.len()];
    let step_walker = |wi: usize, its: &mut Vec<Option<BoxIt>>, calls: &mut Vec<usize>| {
        let Some(it) = its[wi].as_mut()
        else {
            return;
        };
        if calls[wi] >= budget[wi] {
            log.borrow_mut().push(Ev::Budget {
                w: wi,
                calls: calls[wi],
            });
            its[wi] = None;
            return;
        }
        calls[wi] += 1;
        match guarded(|| it.next()) {
            Ok(Some(Item::Ok {
                path,
                root,
                rel,
                depth,
                ft,
                matched,
                cand,
            })) => log.borrow_mut().push(Ev::Yield {
                w: wi,
                path,
                root,
                rel,
                depth,
                ft,
                matched,
                cand,
            }),
            Ok(Some(Item::Err {
                path,
                depth,
                kind,
                cycle,
                display,
            })) => log.borrow_mut().push(Ev::Error {
                w: wi,
                path,
                depth,
                kind,
                cycle,
                display,
            }),
            Ok(None) => {
                log.borrow_mut().push(Ev::End { w: wi });
                its[wi] = None;
            },
            Err(p) => {
                log.borrow_mut().push(Ev::Panic {
                    w: wi,
                    msg: panic_text(p),
                });
                its[wi] = None;
            },
        }
    };
    for step in &sc.schedule {
        match step.clone() {
            Step::W(wi) if wi < its.len() => {
                construct(wi, &mut its, &mut built);
                step_walker(wi, &mut its, &mut calls)
            },
            Step::Cd(dir) => {
                // Fair only while no live walk has a relative base (a relative path is resolved
                // by the system whenever it is used, so such a walk legitimately depends on the
                // working directory): otherwise the step is skipped.
                let relative_alive = (0..its.len()).any(|wi| {
                    built[wi]
                        && its[wi].is_some()
                        && !sc.walkers[wi].spelling.is_absolute()
                });
                if !relative_alive && std::env::set_current_dir(world.abs(&dir)).is_ok() {
                    *cur_cwd.borrow_mut() = dir.clone();
                }
            },
            Step::M(mi) if mi < sc.mutations.len() => {
                mutator.borrow_mut().apply(mi, &log);
            },
            Step::D(wi) if wi < its.len() => {
                // (a walk that was constructed and never advanced is dropped here too)
                construct(wi, &mut its, &mut built);
                if its[wi].is_some() {
                    its[wi] = None;
                    log.borrow_mut().push(Ev::Dropped { w: wi });
                }
            },
            _ => {},
        }
    }
    // Drain: round-robin over the walkers that are still live.
    for wi in 0..sc.walkers.len() {
        construct(wi, &mut its, &mut built);
    }
    while its.iter().any(|it| it.is_some()) {
        for wi in 0..its.len() {
            step_walker(wi, &mut its, &mut calls);
        }
    }
    drop(its);
    crate::fdlimit::restore();
    let _ = std::env::set_current_dir("/");
    if let Some(e) = build_error {
        return Run {
            log: vec![],
            build_error: Some(e),
        };
    }
    let log = Rc::try_unwrap(log).map(|c| c.into_inner()).unwrap_or_else(|rc| rc.borrow().clone());
    Run {
        log,
        build_error: None,
    }
}

fn panic_text(p: Box<dyn std::any::Any + Send>) -> String {
    if let Some(s) = p.downcast_ref::<&str>() {
        s.to_string()
    }
    else if let Some(s) = p.downcast_ref::<String>() {
        s.clone()
    }
    else {
        "<non-string panic>".to_string()
    }
}

/// Lexical component count as `std::path` sees it (used by C14 depth clause).
pub fn component_count(text: &str) -> usize {
    Path::new(text).components().count()
}

pub fn normal_components(text: &str) -> Vec<String> {
    Path::new(text)
        .components()
        .filter_map(|c| match c {
            Component::Normal(s) => Some(s.to_string_lossy().into_owned()),
            _ => None,
        })
        .collect()
}

/// FNV fingerprint of a log (its serialised form).
pub fn fingerprint(log: &[Ev]) -> u64 {
    let text = serde_json::to_string(log).unwrap_or_default();
    hash_bytes(0, text.as_bytes())
}
