//! Execution environment of one simulated run: owns the scratch world and counts what was done.

use std::path::PathBuf;

use crate::exec::{self, Ev};
use crate::model::Model;
use crate::scenario::*;
use crate::world::World;

pub struct Env {
    pub root: PathBuf,
    pub root_text: String,
    world: Option<(Vec<Node>, World)>,
    pub executions: usize,
    pub events: usize,
    pub next_calls: usize,
}

/// A harness or environment problem: exit 2, never a violation.
#[derive(Debug)]
pub struct HarnessError(pub String);

impl Env {
    pub fn new(root: PathBuf) -> Env {
        let root_text = root.to_str().expect("UTF-8 scratch").to_string();
        Env {
            root,
            root_text,
            world: None,
            executions: 0,
            events: 0,
            next_calls: 0,
        }
    }

    /// Bounded-liveness budget: `2 x |model-reachable| + 16` calls of `next()` per walker.
    pub fn budget(sc: &Scenario, model: &Model, w: &Walker) -> usize {
        // Reachable entries, from wherever the walk may start: the world root, the base, any
        // directory between them (a glob with a `..` prefix starts above the base) or below the base
        // (a glob with a literal prefix starts there). Links that
        // re-enter a directory above the start are followed once more than from the world root, so
        // the maximum is taken.
        let mut reach = model.traverse("", w.link, None).len();
        let has_links = sc.tree.iter().any(|n| matches!(n.kind, Kind::Link { .. }));
        if has_links && w.link == Link::ReadTarget {
            for (p, info) in &model.nodes {
                if info.kind == Kind::Dir && (is_under(p, &w.base) || is_under(&w.base, p)) {
                    reach = reach.max(model.traverse(p, w.link, None).len());
                }
            }
        }
        let added: usize = sc
            .mutations
            .iter()
            .map(|m| match m.op {
                MutOp::Add(n) | MutOp::ToDir(n) => n + 1,
                // a new link may expose the tree once more beneath it
                MutOp::Retarget(_) => reach + 1,
                _ => 1,
            })
            .sum();
        2 * (reach + added) + 16
    }

    pub fn run(&mut self, sc: &Scenario) -> Result<Vec<Ev>, HarnessError> {
        let model = Model::from_tree(&sc.tree).map_err(HarnessError)?;
        let reuse = sc.mutations.is_empty()
            && self.world.as_ref().map_or(false, |(tree, _)| *tree == sc.tree);
        if !reuse {
            if let Some((_, w)) = self.world.take() {
                w.destroy();
            }
            let w = World::materialise(&self.root, &sc.tree).map_err(HarnessError)?;
            self.world = Some((sc.tree.clone(), w));
        }
        let world = &self.world.as_ref().unwrap().1;
        let budget: Vec<usize> = sc.walkers.iter().map(|w| Env::budget(sc, &model, w)).collect();
        let run = exec::execute(sc, world, &budget);
        if !sc.mutations.is_empty() {
            // the world is dirty now
            if let Some((_, w)) = self.world.take() {
                w.destroy();
            }
        }
        if let Some(e) = run.build_error {
            return Err(HarnessError(format!("scenario does not build: {}", e)));
        }
        self.executions += 1;
        self.events += run.log.len();
        self.next_calls += run
            .log
            .iter()
            .filter(|e| matches!(e, Ev::Yield { .. } | Ev::Error { .. } | Ev::End { .. }))
            .count();
        Ok(run.log)
    }

    pub fn finish(&mut self) {
        if let Some((_, w)) = self.world.take() {
            w.destroy();
        }
        crate::world::nuke(&self.root);
    }
}
