//! In-memory reference model of the world: the simulator generated the tree, so it knows it
//! completely — including what is inside directories it then made unreadable and which node every
//! link points to. Shares no code with `wax` or `walkdir`.

use std::collections::BTreeMap;

use crate::scenario::{join, name, parent, Kind, Link, Node};

#[derive(Clone, Debug, PartialEq, Eq)]
pub enum Errno {
    NoEnt,
    Loop,
    NotDir,
}

#[derive(Clone, Debug)]
pub struct Info {
    pub kind: Kind,
    pub mode: Option<u32>,
    /// Child names in creation order.
    pub children: Vec<String>,
}

#[derive(Clone, Debug)]
pub struct Model {
    pub nodes: BTreeMap<String, Info>,
}

/// Why an entry produces an `Err` item (possibly in addition to its `Ok` item).
#[derive(Clone, Debug, PartialEq, Eq)]
pub enum Fault {
    /// The walk root does not exist (or a component of it is not a directory).
    RootMissing,
    /// Directory with mode `000`: yielded `Ok`, then its read error.
    Unreadable,
    /// Directory that is a child of an `r--` directory: yielded `Ok` (via `d_type`), then EACCES.
    NoSearch,
    /// Link in an `r--` directory that must be stat'ed (ReadTarget): EACCES instead of an entry.
    NoSearchLink,
    /// Link whose target does not exist (ReadTarget only): error instead of an entry.
    Dangling,
    /// Link whose resolution loops (ReadTarget only).
    ELoop,
    /// Link to a directory that is one of its own ancestors on the walked path (ReadTarget only).
    Cycle { ancestor: String },
    /// Link to a directory with mode `000` (ReadTarget only): the target can be stat'ed but not
    /// opened, which walkdir tries as soon as it follows the link (to look for a cycle): an error
    /// instead of an entry — and, walkdir's doing, an error that carries no path.
    LinkToUnreadable,
}

impl Fault {
    /// `true` if the faulty entry is still yielded as an `Ok` item before its error.
    pub fn yields_entry(&self) -> bool {
        matches!(self, Fault::Unreadable | Fault::NoSearch)
    }
}

#[derive(Clone, Debug)]
pub struct Visit {
    /// Textual world-relative path as the walk spells it (may pass through links).
    pub path: String,
    /// Canonical node this path denotes after following links as the policy demands (for a link
    /// read as a file: the link node itself).
    pub canon: String,
    /// What `Entry::file_type` reports under the policy.
    pub is_dir: bool,
    pub is_link_file: bool,
    /// Depth below the traversal start (walkdir depth).
    pub depth: usize,
    pub fault: Option<Fault>,
}

impl Model {
    pub fn from_tree(tree: &[Node]) -> Result<Model, String> {
        let mut nodes: BTreeMap<String, Info> = BTreeMap::new();
        nodes.insert(
            String::new(),
            Info {
                kind: Kind::Dir,
                mode: None,
                children: vec![],
            },
        );
        for node in tree {
            if node.path.is_empty() || nodes.contains_key(&node.path) {
                return Err(format!("bad or duplicate node {:?}", node.path));
            }
            if node.path == crate::scenario::F {
                // the foreign root hangs nowhere: it is reached through links only
                nodes.insert(node.path.clone(), Info { kind: node.kind.clone(), mode: node.mode, children: vec![] });
                continue;
            }
            let par = parent(&node.path).to_string();
            match nodes.get_mut(&par) {
                Some(info) if info.kind == Kind::Dir => {
                    info.children.push(name(&node.path).to_string());
                },
                _ => return Err(format!("parent of {:?} is not an earlier directory", node.path)),
            }
            nodes.insert(
                node.path.clone(),
                Info {
                    kind: node.kind.clone(),
                    mode: node.mode,
                    children: vec![],
                },
            );
        }
        Ok(Model { nodes })
    }

    pub fn get(&self, path: &str) -> Option<&Info> {
        self.nodes.get(path)
    }

    pub fn is_dir_node(&self, path: &str) -> bool {
        matches!(self.get(path), Some(Info { kind: Kind::Dir, .. }))
    }

    /// Resolves a textual world-relative path the way the kernel would (permissions ignored).
    pub fn resolve(&self, path: &str, follow_last: bool) -> Result<String, Errno> {
        let mut hops = 0usize;
        self.resolve_from(String::new(), path, follow_last, &mut hops)
    }

    /// Number of links the kernel follows to resolve `path` (all of its components).
    pub fn hops(&self, path: &str) -> usize {
        let mut hops = 0usize;
        let _ = self.resolve_from(String::new(), path, true, &mut hops);
        hops
    }

    fn resolve_from(
        &self,
        start: String,
        text: &str,
        follow_last: bool,
        hops: &mut usize,
    ) -> Result<String, Errno> {
        let mut cur = start;
        let comps: Vec<&str> = text.split('/').filter(|c| !c.is_empty() && *c != ".").collect();
        for (i, comp) in comps.iter().enumerate() {
            let last = i + 1 == comps.len();
            // `cur` must be a directory to look anything up in it.
            match self.get(&cur) {
                Some(Info { kind: Kind::Dir, .. }) => {},
                Some(_) => return Err(Errno::NotDir),
                None => return Err(Errno::NoEnt),
            }
            if *comp == ".." {
                cur = parent(&cur).to_string();
                continue;
            }
            let child = join(&cur, comp);
            let info = self.get(&child).ok_or(Errno::NoEnt)?;
            match &info.kind {
                Kind::Link { target } if !last || follow_last => {
                    *hops += 1;
                    if *hops > 40 {
                        return Err(Errno::Loop);
                    }
                    let (from, rest) = match target.strip_prefix(crate::scenario::R) {
                        Some(rest) => (String::new(), rest.to_string()),
                        None => match target.strip_prefix(crate::scenario::F) {
                            Some(rest) => (crate::scenario::F.to_string(), rest.to_string()),
                            None => (cur.clone(), target.clone()),
                        },
                    };
                    cur = self.resolve_from(from, &rest, true, hops)?;
                },
                _ => {
                    cur = child;
                },
            }
        }
        Ok(cur)
    }

    /// All entries a walk starting at textual path `start` visits under the link policy, faults
    /// included, in depth-first model order (order is never compared with the implementation).
    /// `max_depth`: directories at this walkdir depth are not entered.
    pub fn traverse(&self, start: &str, link: Link, max_depth: Option<usize>) -> Vec<Visit> {
        let mut out = Vec::new();
        // The walk root is followed if it is a link, whatever the policy (walkdir does this).
        let canon = match self.resolve(start, true) {
            Ok(c) => c,
            Err(_) => {
                out.push(Visit {
                    path: start.to_string(),
                    canon: String::new(),
                    is_dir: false,
                    is_link_file: false,
                    depth: 0,
                    fault: Some(Fault::RootMissing),
                });
                return out;
            },
        };
        let mut ancestors: Vec<String> = Vec::new();
        self.visit(start.to_string(), canon, 0, link, max_depth, false, &mut ancestors, &mut out);
        out
    }

    #[allow(clippy::too_many_arguments)]
    fn visit(
        &self,
        path: String,
        canon: String,
        depth: usize,
        link: Link,
        max_depth: Option<usize>,
        parent_nosearch: bool,
        ancestors: &mut Vec<String>,
        out: &mut Vec<Visit>,
    ) {
        let info = self.get(&canon).expect("canonical node exists");
        match &info.kind {
            Kind::Dir => {
                let fault = if parent_nosearch {
                    Some(Fault::NoSearch)
                }
                else if info.mode == Some(0) {
                    Some(Fault::Unreadable)
                }
                else {
                    None
                };
                let enter = fault.is_none() && max_depth.map_or(true, |m| depth < m);
                // A directory at the maximum depth is never opened, so its fault never fires.
                let fault = if max_depth.map_or(false, |m| depth >= m) { None } else { fault };
                out.push(Visit {
                    path: path.clone(),
                    canon: canon.clone(),
                    is_dir: true,
                    is_link_file: false,
                    depth,
                    fault,
                });
                if !enter {
                    return;
                }
                let nosearch = info.mode == Some(0o444);
                ancestors.push(canon.clone());
                for child in &info.children {
                    let cpath = join(&path, child);
                    let cnode = join(&canon, child);
                    let cinfo = self.get(&cnode).expect("child exists");
                    match (&cinfo.kind, link) {
                        (Kind::Link { .. }, Link::ReadFile) => out.push(Visit {
                            path: cpath,
                            canon: cnode,
                            is_dir: false,
                            is_link_file: true,
                            depth: depth + 1,
                            fault: None,
                        }),
                        (Kind::Link { .. }, Link::ReadTarget) => {
                            if nosearch {
                                out.push(Visit {
                                    path: cpath,
                                    canon: cnode,
                                    is_dir: false,
                                    is_link_file: false,
                                    depth: depth + 1,
                                    fault: Some(Fault::NoSearchLink),
                                });
                                continue;
                            }
                            // the kernel resolves the path as the walk spells it: the limit on
                            // followed links counts the hops of every link on that path
                            match self.resolve(&cpath, true) {
                                Err(errno) => out.push(Visit {
                                    path: cpath,
                                    canon: cnode,
                                    is_dir: false,
                                    is_link_file: false,
                                    depth: depth + 1,
                                    fault: Some(if errno == Errno::Loop {
                                        Fault::ELoop
                                    }
                                    else {
                                        Fault::Dangling
                                    }),
                                }),
                                Ok(target) => {
                                    if matches!(self.get(&target), Some(Info { kind: Kind::Dir, mode: Some(0), .. })) {
                                        out.push(Visit {
                                            path: cpath,
                                            canon: target.clone(),
                                            is_dir: false,
                                            is_link_file: false,
                                            depth: depth + 1,
                                            fault: Some(Fault::LinkToUnreadable),
                                        });
                                    }
                                    else if self.is_dir_node(&target) && ancestors.contains(&target) {
                                        out.push(Visit {
                                            path: cpath,
                                            canon: target.clone(),
                                            is_dir: false,
                                            is_link_file: false,
                                            depth: depth + 1,
                                            fault: Some(Fault::Cycle { ancestor: target }),
                                        });
                                    }
                                    else {
                                        self.visit(
                                            cpath,
                                            target,
                                            depth + 1,
                                            link,
                                            max_depth,
                                            false,
                                            ancestors,
                                            out,
                                        );
                                    }
                                },
                            }
                        },
                        _ => self.visit(
                            cpath,
                            cnode,
                            depth + 1,
                            link,
                            max_depth,
                            nosearch,
                            ancestors,
                            out,
                        ),
                    }
                }
                ancestors.pop();
            },
            _ => out.push(Visit {
                path,
                canon,
                is_dir: false,
                is_link_file: false,
                depth,
                fault: None,
            }),
        }
    }
}
