//! Hand-written, dependency-free PRNG. One integer (VERIF_SEED) decides everything: run `i` of a
//! batch uses `Rng::new(mix(seed, i))` regardless of worker or worker count. The generator is
//! consulted only while a scenario is *generated*; execution, oracles, logging and shrinking never
//! draw from it.

#[derive(Clone, Debug)]
pub struct Rng {
    s: [u64; 4],
}

pub fn splitmix(x: &mut u64) -> u64 {
    *x = x.wrapping_add(0x9E37_79B9_7F4A_7C15);
    let mut z = *x;
    z = (z ^ (z >> 30)).wrapping_mul(0xBF58_476D_1CE4_E5B9);
    z = (z ^ (z >> 27)).wrapping_mul(0x94D0_49BB_1331_11EB);
    z ^ (z >> 31)
}

/// Seed of run `index` in the batch seeded with `seed`.
pub fn mix(seed: u64, index: u64) -> u64 {
    let mut x = seed ^ 0xA076_1D64_78BD_642F;
    let a = splitmix(&mut x);
    let mut y = a ^ index.wrapping_mul(0xE703_7ED1_A0B4_28DB);
    splitmix(&mut y)
}

/// Salted, deterministic hash of a byte string (FNV-1a folded through splitmix).
pub fn hash_bytes(salt: u64, bytes: &[u8]) -> u64 {
    let mut h: u64 = 0xcbf2_9ce4_8422_2325 ^ salt;
    for b in bytes {
        h ^= *b as u64;
        h = h.wrapping_mul(0x0000_0100_0000_01B3);
    }
    let mut x = h;
    splitmix(&mut x)
}

impl Rng {
    pub fn new(seed: u64) -> Self {
        let mut x = seed;
        let s = [
            splitmix(&mut x),
            splitmix(&mut x),
            splitmix(&mut x),
            splitmix(&mut x),
        ];
        Rng { s }
    }

    pub fn next_u64(&mut self) -> u64 {
        // xoshiro256**
        let result = self.s[1].wrapping_mul(5).rotate_left(7).wrapping_mul(9);
        let t = self.s[1] << 17;
        self.s[2] ^= self.s[0];
        self.s[3] ^= self.s[1];
        self.s[1] ^= self.s[2];
        self.s[0] ^= self.s[3];
        self.s[2] ^= t;
        self.s[3] = self.s[3].rotate_left(45);
        result
    }

    /// Uniform in `0..n` (`n > 0`).
    pub fn below(&mut self, n: usize) -> usize {
        debug_assert!(n > 0);
        ((self.next_u64() >> 11) % (n as u64)) as usize
    }

    /// Uniform in `lo..=hi`.
    pub fn range(&mut self, lo: usize, hi: usize) -> usize {
        lo + self.below(hi - lo + 1)
    }

    /// True with probability `num/den`.
    pub fn chance(&mut self, num: usize, den: usize) -> bool {
        self.below(den) < num
    }

    pub fn pick<'a, T>(&mut self, xs: &'a [T]) -> &'a T {
        &xs[self.below(xs.len())]
    }

    pub fn shuffle<T>(&mut self, xs: &mut [T]) {
        for i in (1..xs.len()).rev() {
            let j = self.below(i + 1);
            xs.swap(i, j);
        }
    }

    /// Weighted choice: returns the index chosen from `weights`.
    pub fn weighted(&mut self, weights: &[usize]) -> usize {
        let total: usize = weights.iter().sum();
        let mut x = self.below(total.max(1));
        for (i, w) in weights.iter().enumerate() {
            if x < *w {
                return i;
            }
            x -= *w;
        }
        weights.len() - 1
    }
}
